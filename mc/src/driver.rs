//! Check driver: enumerate the family, run the pool, apply known findings, write evidence and
//! replay files, print KNOWN-FINDING / VIOLATION lines.

use crate::pool::{self, Job, JobResult, Outcome, Viol};
use serde_json::json;
use std::collections::{BTreeMap, BTreeSet};
use std::time::{Duration, Instant};

pub const VERIF: &str = "/verif";

pub struct CheckSpec {
    pub id: &'static str,
    pub level: &'static str,
    pub rule: &'static str,
    pub assumptions: Vec<&'static str>,
    /// per-job wall cap
    pub wall_cap: Duration,
    pub jobs: Vec<Job>,
    /// self-checks already done (name, ok)
    pub self_checks: Vec<(String, bool)>,
    pub completed_level: String,
    /// how an aborted / timed-out worker is to be read for this property
    pub abort_is_violation: bool,
}

#[derive(Debug, Clone, PartialEq, Eq, PartialOrd, Ord)]
pub struct FindingKey {
    pub property: String,
    pub program: String,
    pub kind: String,
    pub detail: String,
}

pub struct Findings {
    pub keys: BTreeMap<FindingKey, String>,
}

pub fn load_findings() -> Findings {
    let mut keys = BTreeMap::new();
    let dir = format!("{}/known_findings", VERIF);
    let mut files: Vec<std::path::PathBuf> = vec![];
    if let Ok(rd) = std::fs::read_dir(&dir) {
        for e in rd.flatten() {
            files.push(e.path());
        }
    }
    files.push(format!("{}/known_findings.txt", VERIF).into());
    files.sort();
    for f in files {
        let text = match std::fs::read_to_string(&f) {
            Ok(t) => t,
            Err(_) => continue,
        };
        for line in text.lines() {
            let line = line.trim();
            if !line.starts_with("finding:") {
                continue;
            }
            let (head, tail) = match line.split_once(" :: ") {
                Some(x) => x,
                None => (line, ""),
            };
            // finding: property=C02 program=<id> kind=<k> cause=<Dn> detail=<d (may contain spaces, runs to the end)>
            let mut property = String::new();
            let mut program = String::new();
            let mut kind = String::new();
            let mut detail = String::new();
            let body = head.trim_start_matches("finding:").trim();
            let (pre, det) = match body.split_once(" detail=") {
                Some((a, b)) => (a, b.to_string()),
                None => (body, String::new()),
            };
            detail.push_str(&det);
            for tok in pre.split_whitespace() {
                if let Some(v) = tok.strip_prefix("property=") {
                    property = v.to_string();
                } else if let Some(v) = tok.strip_prefix("program=") {
                    program = v.to_string();
                } else if let Some(v) = tok.strip_prefix("kind=") {
                    kind = v.to_string();
                }
            }
            keys.insert(FindingKey { property, program, kind, detail }, tail.to_string());
        }
    }
    Findings { keys }
}

pub fn finding_line(property: &str, program: &crate::ir::Program, v: &Viol, cause: &str) -> String {
    format!("finding: property={} program={} kind={} cause={} detail={} :: {}", property, program.id(), v.kind, cause, v.detail, program.text())
}

pub fn nworkers() -> usize {
    std::thread::available_parallelism().map(|n| n.get()).unwrap_or(4).min(16)
}

/// Runs the check; returns the process exit code.
pub fn run_check(spec: CheckSpec, tier: &str, emit_findings: Option<&str>) -> i32 {
    let t0 = Instant::now();
    let seed: i64 = std::env::var("VERIF_SEED").ok().and_then(|s| s.parse().ok()).unwrap_or(0);
    for (name, ok) in &spec.self_checks {
        if !ok {
            eprintln!("MACHINERY: self-check failed: {}", name);
            return 2;
        }
    }
    let njobs = spec.jobs.len();
    eprintln!("[{}] tier={} jobs={} workers={}", spec.id, tier, njobs, nworkers());
    let results = pool::run_jobs(spec.jobs, nworkers(), spec.wall_cap, true);
    let findings = load_findings();

    let mut states = 0u64;
    let mut transitions = 0u64;
    let mut traces = 0u64;
    let mut iterations = 0u64;
    let mut nontrivial: BTreeSet<String> = BTreeSet::new();
    let mut capped = 0u64;
    let mut aborted = 0u64;
    let mut timed_out = 0u64;
    let mut dont_care = 0u64;
    let mut samples: Vec<serde_json::Value> = vec![];
    let mut known_matched = 0u64;
    let mut new_viols: Vec<(Job, Viol)> = vec![];
    let mut known_lines: Vec<String> = vec![];
    let mut machinery: Vec<String> = vec![];
    let mut emitted: Vec<String> = vec![];
    let mut known_by_kind: BTreeMap<String, u64> = BTreeMap::new();

    let handle_viol = |job: &Job, v: Viol, known_matched: &mut u64, new_viols: &mut Vec<(Job, Viol)>, known_lines: &mut Vec<String>, emitted: &mut Vec<String>, known_by_kind: &mut BTreeMap<String, u64>| {
        let key = FindingKey { property: spec.id.to_string(), program: job.program.id(), kind: v.kind.clone(), detail: v.detail.clone() };
        if emit_findings.is_some() {
            // `attribution`: computed by the check (e.g. C02: the outcome is also absent from the
            // reference restricted to loom's RMW rule); tools/mkfindings.py turns it into the cause
            let attr = v.witness.get("attribution").and_then(|a| a.as_str()).map(|a| format!("TBD:{}", a)).unwrap_or_else(|| "TBD".to_string());
            emitted.push(finding_line(spec.id, &job.program, &v, &attr));
        }
        if findings.keys.contains_key(&key) {
            *known_matched += 1;
            *known_by_kind.entry(v.kind.clone()).or_insert(0) += 1;
            known_lines.push(format!("KNOWN-FINDING: property={} program={} {} {} :: {}", spec.id, job.program.short_id(), v.kind, v.detail, job.program.text()));
        } else {
            new_viols.push((job.clone(), v));
        }
    };

    for (job, out) in &results {
        match out {
            Outcome::Done(r) => {
                if let Some(e) = &r.machinery_error {
                    machinery.push(format!("{}: {}", job.id, e));
                    continue;
                }
                states += r.states;
                transitions += r.transitions;
                traces += r.traces_validated;
                iterations += r.loom_iterations;
                if r.nontrivial {
                    nontrivial.insert(job.program.id());
                }
                if r.capped {
                    capped += 1;
                }
                if r.dont_care {
                    dont_care += 1;
                }
                if samples.len() < 6 && !r.sample.is_null() && (r.nontrivial || samples.len() < 2) {
                    samples.push(r.sample.clone());
                }
                for v in &r.violations {
                    handle_viol(job, v.clone(), &mut known_matched, &mut new_viols, &mut known_lines, &mut emitted, &mut known_by_kind);
                }
            }
            Outcome::Aborted(status) => {
                aborted += 1;
                if spec.abort_is_violation {
                    let v = Viol { kind: "aborted".into(), detail: "process".into(), expected: "model unwinds or returns".into(), observed: format!("worker process died: {}", status), witness: json!({}) };
                    handle_viol(job, v, &mut known_matched, &mut new_viols, &mut known_lines, &mut emitted, &mut known_by_kind);
                }
            }
            Outcome::TimedOut => {
                timed_out += 1;
                eprintln!("[{}] timed out (not covered): {}", spec.id, job.program.text());
            }
        }
    }

    if let Some(path) = emit_findings {
        let _ = std::fs::write(path, emitted.join("\n") + "\n");
        eprintln!("[{}] wrote {} candidate finding lines to {}", spec.id, emitted.len(), path);
    }

    if !machinery.is_empty() {
        for m in machinery.iter().take(10) {
            eprintln!("MACHINERY: {}", m);
        }
        return 2;
    }

    // vacuity (only a machinery verdict when nothing was found: a reproducible violation stands
    // whatever it did to the "non-trivial" statistics - e.g. a bound of 0 that is ignored makes
    // every C15 program trivial *and* breaks the bound in every iteration)
    if nontrivial.len() < 2 && new_viols.is_empty() {
        eprintln!("MACHINERY: family is vacuous ({} non-trivial programs)", nontrivial.len());
        return 2;
    }

    // replay files for new violations (each re-run once in a fresh worker and required to reproduce)
    let mut violation_lines = vec![];
    let mut exit = 0;
    if !new_viols.is_empty() {
        let dir = format!("{}/replays/{}", VERIF, spec.id);
        let _ = std::fs::create_dir_all(&dir);
        // group by job
        let mut by_job: BTreeMap<String, (Job, Vec<Viol>)> = BTreeMap::new();
        for (j, v) in new_viols {
            by_job.entry(j.id.clone()).or_insert((j, vec![])).1.push(v);
        }
        let limit = 40usize;
        let rerun_jobs: Vec<Job> = by_job.values().take(limit).map(|(j, _)| j.clone()).collect();
        let rer = pool::run_jobs(rerun_jobs, nworkers().min(8), spec.wall_cap, false);
        let mut rer_map: BTreeMap<String, Outcome> = BTreeMap::new();
        for (j, o) in rer {
            rer_map.insert(j.id.clone(), o);
        }
        for (n, (id, (job, viols))) in by_job.iter().enumerate() {
            for v in viols {
                let reproduced = if n < limit {
                    match rer_map.get(id) {
                        Some(Outcome::Done(r2)) => r2.violations.iter().any(|x| x.kind == v.kind && x.detail == v.detail),
                        Some(Outcome::Aborted(_)) => v.kind == "aborted",
                        _ => false,
                    }
                } else {
                    true
                };
                // C16 is about results that depend on what ran before in the process: such a
                // violation need not show again in a fresh worker (that is the violation)
                let history_kind = spec.id == "C16" && matches!(v.kind.as_str(), "depends_on_other_model" | "iteration_depends_on_history" | "tail_depends_on_history");
                if !reproduced && v.kind != "nondeterministic" && !history_kind {
                    eprintln!("MACHINERY: violation did not reproduce in a fresh worker: {} {} {} :: {}", spec.id, v.kind, v.detail, job.program.text());
                    return 2;
                }
                let fname = format!("{}/{}-{}-{}.json", dir, job.program.short_id(), v.kind, short_hash(&v.detail));
                let replay = json!({
                    "property": spec.id, "tier": tier, "job": job, "kind": v.kind, "detail": v.detail,
                    "expected": v.expected, "observed": v.observed, "witness": v.witness,
                    "program_text": job.program.text(),
                    "rust_test": crate::ir::rust_test(&job.program),
                    "finding_line": finding_line(spec.id, &job.program, v, "TBD"),
                });
                let _ = std::fs::write(&fname, serde_json::to_string_pretty(&replay).unwrap());
                violation_lines.push(format!("VIOLATION property={} replay={}", spec.id, fname));
                exit = 1;
            }
        }
    }

    // evidence
    let evals = njobs as u64;
    let exhaustive = capped == 0 && timed_out == 0;
    let cov = json!({
        "evaluations": evals,
        "distinct_nontrivial": nontrivial.len(),
        "rule": spec.rule,
        "samples": samples,
        "states": states.max(1),
        "transitions": transitions.max(1),
        "traces_validated_against_impl": traces,
        "loom_iterations": iterations,
        "capped": capped,
        "aborted": aborted,
        "timed_out": timed_out,
        "dont_care": dont_care,
        "completed_level": spec.completed_level,
        "known_findings_matched": known_matched,
        "known_findings_by_kind": known_by_kind,
        "exhaustive": exhaustive,
    });
    let ev = json!({
        "property_id": spec.id,
        "tier": tier,
        "seed": seed,
        "level": spec.level,
        "coverage": cov,
        "assumptions": spec.assumptions,
        "wall_s": t0.elapsed().as_secs_f64(),
        "violations": violation_lines.len(),
    });
    let _ = std::fs::create_dir_all(format!("{}/evidence", VERIF));
    std::fs::write(format!("{}/evidence/{}.json", VERIF, spec.id), serde_json::to_string_pretty(&ev).unwrap()).expect("write evidence");

    // output
    for l in known_lines.iter() {
        println!("{}", l);
    }
    for l in &violation_lines {
        println!("{}", l);
    }
    eprintln!(
        "[{}] programs={} nontrivial={} states={} transitions={} loom_iterations={} traces_validated={} capped={} aborted={} timed_out={} known={} violations={} wall={:.1}s",
        spec.id,
        evals,
        nontrivial.len(),
        states,
        transitions,
        iterations,
        traces,
        capped,
        aborted,
        timed_out,
        known_matched,
        violation_lines.len(),
        t0.elapsed().as_secs_f64()
    );
    // coverage collapse: when a large part of the family hits the iteration cap or the wall
    // cap, "no violation" says nothing about the property. Not a verdict - a machinery exit.
    if exit == 0 && (capped + timed_out) * 4 > evals {
        eprintln!("MACHINERY: coverage collapsed ({} capped + {} timed out of {} programs); no verdict", capped, timed_out, evals);
        return 2;
    }
    exit
}

fn short_hash(s: &str) -> String {
    let mut h: u64 = 0xcbf29ce484222325;
    for b in s.bytes() {
        h ^= b as u64;
        h = h.wrapping_mul(0x100000001b3);
    }
    format!("{:08x}", h as u32)
}

pub fn replay(path: &str) -> i32 {
    let text = match std::fs::read_to_string(path) {
        Ok(t) => t,
        Err(e) => {
            eprintln!("cannot read {}: {}", path, e);
            return 2;
        }
    };
    let v: serde_json::Value = serde_json::from_str(&text).expect("replay json");
    let job: Job = serde_json::from_value(v["job"].clone()).expect("job");
    println!("program: {}", job.program.text());
    println!("recorded: kind={} detail={}", v["kind"], v["detail"]);
    let res = pool::run_jobs(vec![job.clone()], 1, Duration::from_secs(600), false);
    match &res[0].1 {
        Outcome::Done(r) => {
            println!("verdict: {} iterations: {}", r.verdict, r.loom_iterations);
            println!("sample: {}", serde_json::to_string_pretty(&r.sample).unwrap());
            let mut hit = false;
            for x in &r.violations {
                println!("violation: {} {} (expected: {}; observed: {})", x.kind, x.detail, x.expected, x.observed);
                if json!(x.kind) == v["kind"] && json!(x.detail) == v["detail"] {
                    hit = true;
                }
            }
            if hit {
                println!("REPRODUCED");
                1
            } else {
                println!("NOT REPRODUCED");
                0
            }
        }
        Outcome::Aborted(s) => {
            println!("worker aborted: {}", s);
            if v["kind"] == "aborted" {
                println!("REPRODUCED");
                1
            } else {
                0
            }
        }
        Outcome::TimedOut => {
            println!("timed out");
            2
        }
    }
}

#[allow(dead_code)]
pub fn result_of(o: &Outcome) -> Option<&JobResult> {
    match o {
        Outcome::Done(r) => Some(r),
        _ => None,
    }
}
