//! Worker pool: shards jobs over child processes (`vmc worker`), survives aborts and hangs.

use serde::{Deserialize, Serialize};
use std::collections::VecDeque;
use std::io::{BufRead, BufReader, Write};
use std::process::{Child, Command, Stdio};
use std::sync::{Arc, Mutex};
use std::time::{Duration, Instant};

#[derive(Clone, Debug, Serialize, Deserialize)]
pub struct Job {
    pub id: String,
    pub check: String,
    pub tier: String,
    pub program: crate::ir::Program,
    #[serde(default)]
    pub cfg: crate::subject::Cfg,
    /// check-specific parameters
    #[serde(default)]
    pub extra: serde_json::Value,
}

#[derive(Clone, Debug, Serialize, Deserialize, Default)]
pub struct Viol {
    pub kind: String,
    pub detail: String,
    #[serde(default)]
    pub expected: String,
    #[serde(default)]
    pub observed: String,
    #[serde(default)]
    pub witness: serde_json::Value,
}

#[derive(Clone, Debug, Serialize, Deserialize, Default)]
pub struct JobResult {
    pub id: String,
    #[serde(default)]
    pub violations: Vec<Viol>,
    #[serde(default)]
    pub states: u64,
    #[serde(default)]
    pub transitions: u64,
    /// loom iterations accepted by the reference + reference outcomes matched by an iteration
    #[serde(default)]
    pub traces_validated: u64,
    #[serde(default)]
    pub loom_iterations: u64,
    #[serde(default)]
    pub nontrivial: bool,
    #[serde(default)]
    pub capped: bool,
    #[serde(default)]
    pub dont_care: bool,
    #[serde(default)]
    pub verdict: String,
    #[serde(default)]
    pub ref_outcomes: u64,
    #[serde(default)]
    pub loom_outcomes: u64,
    #[serde(default)]
    pub sample: serde_json::Value,
    /// machinery failure inside the worker (reference engine panic etc.)
    #[serde(default)]
    pub machinery_error: Option<String>,
}

#[derive(Clone, Debug)]
pub enum Outcome {
    Done(JobResult),
    /// the worker process died while running the job
    Aborted(String),
    /// the wall cap was hit and the worker was killed
    TimedOut,
}

struct Slot {
    child: Option<Child>,
    started: Option<Instant>,
    killed_for_timeout: bool,
}

fn spawn_worker() -> Child {
    let exe = std::env::current_exe().expect("current_exe");
    Command::new(exe)
        .arg("worker")
        .env_remove("RUST_BACKTRACE")
        .env_remove("LOOM_LOG")
        .env_remove("LOOM_LOCATION")
        .env_remove("LOOM_MAX_PREEMPTIONS")
        .env_remove("LOOM_MAX_BRANCHES")
        .env_remove("LOOM_MAX_PERMUTATIONS")
        .env_remove("LOOM_MAX_DURATION")
        .env_remove("LOOM_CHECKPOINT_FILE")
        .env_remove("LOOM_CHECKPOINT_INTERVAL")
        .stdin(Stdio::piped())
        .stdout(Stdio::piped())
        .stderr(Stdio::null())
        .spawn()
        .expect("spawn worker")
}

/// Run all jobs; results come back in job order.
pub fn run_jobs(jobs: Vec<Job>, nworkers: usize, wall_cap: Duration, progress: bool) -> Vec<(Job, Outcome)> {
    let total = jobs.len();
    let queue: Arc<Mutex<VecDeque<(usize, Job)>>> = Arc::new(Mutex::new(jobs.into_iter().enumerate().collect()));
    let results: Arc<Mutex<Vec<Option<(Job, Outcome)>>>> = Arc::new(Mutex::new((0..total).map(|_| None).collect()));
    let slots: Arc<Vec<Mutex<Slot>>> = Arc::new((0..nworkers).map(|_| Mutex::new(Slot { child: None, started: None, killed_for_timeout: false })).collect());
    let done = Arc::new(std::sync::atomic::AtomicUsize::new(0));
    let finished = Arc::new(std::sync::atomic::AtomicBool::new(false));

    // watchdog
    let wd = {
        let slots = slots.clone();
        let finished = finished.clone();
        std::thread::spawn(move || {
            while !finished.load(std::sync::atomic::Ordering::SeqCst) {
                std::thread::sleep(Duration::from_millis(200));
                for s in slots.iter() {
                    let mut s = s.lock().unwrap();
                    if let Some(st) = s.started {
                        if st.elapsed() > wall_cap {
                            if let Some(c) = s.child.as_mut() {
                                let _ = c.kill();
                            }
                            s.killed_for_timeout = true;
                            s.started = None;
                        }
                    }
                }
            }
        })
    };

    let mut handles = vec![];
    for w in 0..nworkers {
        let queue = queue.clone();
        let results = results.clone();
        let slots = slots.clone();
        let done = done.clone();
        handles.push(std::thread::spawn(move || {
            let mut io: Option<(std::process::ChildStdin, BufReader<std::process::ChildStdout>)> = None;
            loop {
                let next = queue.lock().unwrap().pop_front();
                let (idx, job) = match next {
                    Some(x) => x,
                    None => break,
                };
                if io.is_none() {
                    let mut c = spawn_worker();
                    let stdin = c.stdin.take().unwrap();
                    let stdout = BufReader::new(c.stdout.take().unwrap());
                    let mut s = slots[w].lock().unwrap();
                    s.child = Some(c);
                    s.killed_for_timeout = false;
                    io = Some((stdin, stdout));
                }
                let line = serde_json::to_string(&job).unwrap();
                let outcome;
                {
                    let (stdin, stdout) = io.as_mut().unwrap();
                    slots[w].lock().unwrap().started = Some(Instant::now());
                    let wrote = writeln!(stdin, "{}", line).and_then(|_| stdin.flush());
                    let mut res: Option<JobResult> = None;
                    if wrote.is_ok() {
                        let mut buf = String::new();
                        loop {
                            buf.clear();
                            match stdout.read_line(&mut buf) {
                                Ok(0) | Err(_) => break,
                                Ok(_) => {
                                    if let Some(rest) = buf.strip_prefix("RESULT ") {
                                        match serde_json::from_str::<JobResult>(rest.trim()) {
                                            Ok(r) => res = Some(r),
                                            Err(e) => {
                                                res = Some(JobResult { id: job.id.clone(), machinery_error: Some(format!("bad result line: {}", e)), ..Default::default() })
                                            }
                                        }
                                        break;
                                    }
                                }
                            }
                        }
                    }
                    let mut s = slots[w].lock().unwrap();
                    s.started = None;
                    match res {
                        Some(r) => outcome = Outcome::Done(r),
                        None => {
                            // the worker died
                            let timed_out = s.killed_for_timeout;
                            let status = s.child.as_mut().map(|c| c.wait().map(|st| format!("{}", st)).unwrap_or_else(|e| format!("wait failed: {}", e))).unwrap_or_default();
                            s.child = None;
                            outcome = if timed_out { Outcome::TimedOut } else { Outcome::Aborted(status) };
                        }
                    }
                }
                if !matches!(outcome, Outcome::Done(_)) {
                    io = None;
                }
                results.lock().unwrap()[idx] = Some((job, outcome));
                let d = done.fetch_add(1, std::sync::atomic::Ordering::SeqCst) + 1;
                if progress && (d % 2000 == 0) {
                    eprintln!("  .. {}/{} jobs", d, total);
                }
            }
            // shut the worker down
            drop(io);
            let mut s = slots[w].lock().unwrap();
            if let Some(mut c) = s.child.take() {
                let _ = c.wait();
            }
        }));
    }
    for h in handles {
        h.join().unwrap();
    }
    finished.store(true, std::sync::atomic::Ordering::SeqCst);
    let _ = wd.join();
    let mut r = results.lock().unwrap();
    r.drain(..).map(|x| x.expect("job without result")).collect()
}

/// The worker loop: one JSON job per line in, `BEGIN id` + `RESULT json` out.
pub fn worker_main() {
    std::panic::set_hook(Box::new(|_| {}));
    let stdin = std::io::stdin();
    let stdout = std::io::stdout();
    for line in stdin.lock().lines() {
        let line = match line {
            Ok(l) => l,
            Err(_) => break,
        };
        if line.trim().is_empty() {
            continue;
        }
        let job: Job = match serde_json::from_str(&line) {
            Ok(j) => j,
            Err(e) => {
                let r = JobResult { machinery_error: Some(format!("bad job: {}", e)), ..Default::default() };
                let mut o = stdout.lock();
                let _ = writeln!(o, "RESULT {}", serde_json::to_string(&r).unwrap());
                let _ = o.flush();
                continue;
            }
        };
        {
            let mut o = stdout.lock();
            let _ = writeln!(o, "BEGIN {}", job.id);
            let _ = o.flush();
        }
        let id = job.id.clone();
        let r = match std::panic::catch_unwind(std::panic::AssertUnwindSafe(|| crate::checks::eval(&job))) {
            Ok(r) => r,
            Err(p) => {
                let msg = if let Some(s) = p.downcast_ref::<&str>() {
                    s.to_string()
                } else if let Some(s) = p.downcast_ref::<String>() {
                    s.clone()
                } else {
                    "panic".into()
                };
                JobResult { id, machinery_error: Some(format!("worker panic: {}", msg)), ..Default::default() }
            }
        };
        let mut o = stdout.lock();
        let _ = writeln!(o, "RESULT {}", serde_json::to_string(&r).unwrap());
        let _ = o.flush();
    }
}
