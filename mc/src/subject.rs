//! Subject runner: interprets a `Program` on the REAL loom API inside `Builder::check`.
//!
//! All bookkeeping uses std types that loom does not see. Every iteration produces an `IterData`
//! (results, completion history, decision path through hook H1) that is streamed to a sink.

use crate::ir::*;
use loom::verif::{Branch, Iteration};
use serde::{Deserialize, Serialize};
use std::cell::RefCell;
use std::panic::{catch_unwind, AssertUnwindSafe};
use std::rc::Rc;
use std::sync::{Arc, Mutex};

#[derive(Clone, Debug, Serialize, Deserialize, PartialEq, Eq)]
pub struct Cfg {
    #[serde(default)]
    pub preemption_bound: Option<usize>,
    #[serde(default = "d_branches")]
    pub max_branches: usize,
    #[serde(default = "d_threads")]
    pub max_threads: usize,
    /// harness-side cap on the number of iterations (0 = none)
    #[serde(default)]
    pub iter_cap: usize,
    #[serde(default)]
    pub checkpoint_file: Option<String>,
    #[serde(default)]
    pub checkpoint_interval: Option<usize>,
    #[serde(default)]
    pub max_permutations: Option<usize>,
    #[serde(default)]
    pub max_duration_s: Option<u64>,
    #[serde(default)]
    pub location: bool,
    #[serde(default)]
    pub expect_explicit_explore: bool,
    /// the harness panics (tag 9999) at the start of this iteration (1-based, counted per run)
    #[serde(default)]
    pub stop_at_iter: Option<usize>,
    /// the harness panics (tag 7777) at the end of an iteration whose outcome prints as this
    #[serde(default)]
    pub fail_outcome: Option<String>,
    /// copy the checkpoint file to `<file>.<n>` at the start of the n-th iteration of this run
    #[serde(default)]
    pub snapshot_checkpoints: bool,
    /// record `loom::verif::fingerprint()` and the main thread's id at the start of every iteration
    #[serde(default)]
    pub fingerprint: bool,
}

fn d_branches() -> usize {
    1000
}
fn d_threads() -> usize {
    5
}

impl Default for Cfg {
    fn default() -> Cfg {
        Cfg {
            preemption_bound: None,
            max_branches: 1000,
            max_threads: 5,
            iter_cap: 0,
            checkpoint_file: None,
            checkpoint_interval: None,
            max_permutations: None,
            max_duration_s: None,
            location: false,
            expect_explicit_explore: false,
            stop_at_iter: None,
            fail_outcome: None,
            snapshot_checkpoints: false,
            fingerprint: false,
        }
    }
}

#[derive(Clone, Debug, PartialEq, Eq, Hash, Serialize, Deserialize, PartialOrd, Ord)]
pub enum Verdict {
    Ok,
    Deadlock,
    Race,
    /// an access while a conflicting `get()` / `get_mut()` / closure access is still open
    Overlap,
    Leak(String),
    BranchLimit,
    /// our own PanicHere / stop_at_iter
    User(u64),
    /// the harness iteration cap
    Capped,
    /// anything else loom panicked with (normalised message)
    LoomInternal(String),
}

impl Verdict {
    pub fn short(&self) -> String {
        match self {
            Verdict::Ok => "Ok".into(),
            Verdict::Deadlock => "Deadlock".into(),
            Verdict::Race => "Race".into(),
            Verdict::Overlap => "Overlap".into(),
            Verdict::Leak(k) => format!("Leak({})", k),
            Verdict::BranchLimit => "BranchLimit".into(),
            Verdict::User(t) => format!("User({})", t),
            Verdict::Capped => "Capped".into(),
            Verdict::LoomInternal(m) => format!("LoomInternal({})", m),
        }
    }
}

pub const CAP_TAG: &str = "VMC_ITER_CAP";
pub const USER_TAG: &str = "VMC_USER_PANIC#";

/// Normalise a loom panic message: keep the first line, drop digits (clock values, indices).
pub fn normalise_msg(m: &str) -> String {
    let first = m.lines().next().unwrap_or("");
    let mut out = String::new();
    let mut last_hash = false;
    for ch in first.chars() {
        if ch.is_ascii_digit() {
            if !last_hash {
                out.push('#');
                last_hash = true;
            }
        } else {
            out.push(ch);
            last_hash = false;
        }
    }
    out.truncate(160);
    out
}

pub fn classify(msg: &str) -> Verdict {
    if msg.contains(CAP_TAG) {
        return Verdict::Capped;
    }
    if let Some(p) = msg.find(USER_TAG) {
        let rest = &msg[p + USER_TAG.len()..];
        let n: String = rest.chars().take_while(|c| c.is_ascii_digit()).collect();
        return Verdict::User(n.parse().unwrap_or(0));
    }
    if msg.starts_with("deadlock; threads =") {
        return Verdict::Deadlock;
    }
    if msg.contains("Causality violation") {
        return Verdict::Race;
    }
    if msg.starts_with("currently writing to cell") || msg.starts_with("currently reading from cell") {
        return Verdict::Overlap;
    }
    if msg.starts_with("Arc leaked") {
        return Verdict::Leak("Arc".into());
    }
    if msg.starts_with("Allocation leaked") {
        return Verdict::Leak("Allocation".into());
    }
    if msg.starts_with("Messages leaked") {
        return Verdict::Leak("Messages".into());
    }
    if msg.starts_with("Model exceeded maximum number of branches") {
        return Verdict::BranchLimit;
    }
    Verdict::LoomInternal(normalise_msg(msg))
}

/// Everything observed about one iteration.
#[derive(Clone, Debug)]
pub struct IterData {
    /// loom's 1-based iteration counter
    pub index: usize,
    pub results: Outcome,
    /// completion history: (thread, op index, result) in the real order of returns
    pub history: Vec<(u8, u8, Res)>,
    pub path: Vec<Branch>,
    pub pos: usize,
    pub panicked: bool,
    /// extra observations (statics counters etc.)
    pub notes: Vec<(u8, u64, u64)>,
}

impl IterData {
    pub fn complete(&self) -> bool {
        !self.panicked && self.results.iter().all(|t| t.iter().all(|r| *r != Res::Nr))
    }
}

pub trait IterSink {
    fn on_iter(&mut self, it: &IterData);
}

impl<F: FnMut(&IterData)> IterSink for F {
    fn on_iter(&mut self, it: &IterData) {
        self(it)
    }
}

#[derive(Clone, Debug)]
pub struct RunSummary {
    pub verdict: Verdict,
    pub message: String,
    /// iterations reported through the hook (including a panicking one)
    pub iterations: usize,
}

#[derive(Default)]
struct Rec {
    results: Outcome,
    history: Vec<(u8, u8, Res)>,
    notes: Vec<(u8, u64, u64)>,
    started: usize,
}

thread_local! {
    /// per OS thread: the recorder of the model currently running on it
    static CUR: RefCell<Option<Arc<Mutex<Rec>>>> = RefCell::new(None);
}

pub fn note(kind: u8, a: u64, b: u64) {
    CUR.with(|c| {
        if let Some(r) = c.borrow().as_ref() {
            r.lock().unwrap().notes.push((kind, a, b));
        }
    });
}

fn with_rec<R>(f: impl FnOnce(&Rec) -> R, default: R) -> R {
    CUR.with(|c| match c.borrow().as_ref() {
        Some(r) => f(&r.lock().unwrap()),
        None => default,
    })
}

pub fn count_notes(kind: u8, a: u64, b: u64) -> usize {
    with_rec(|r| r.notes.iter().filter(|n| n.0 == kind && n.1 == a && n.2 % 100 == b).count(), 0)
}

pub fn count_notes_kind(kind: u8, a: u64) -> usize {
    with_rec(|r| r.notes.iter().filter(|n| n.0 == kind && n.1 == a).count(), 0)
}

/// number of ops completed so far in this iteration
pub fn hist_len() -> u64 {
    with_rec(|r| r.history.len() as u64, 0)
}

/// Run `prog` under loom with `cfg`, streaming every iteration to `sink`.
pub fn run<S: IterSink + 'static>(prog: &Program, cfg: &Cfg, sink: S) -> (RunSummary, S) {
    let prog = Arc::new(prog.clone());
    let rec: Arc<Mutex<Rec>> = Arc::new(Mutex::new(Rec::default()));
    let sink = Arc::new(Mutex::new((sink, 0usize)));

    // hook H1: called at the end of every iteration (also a panicking one)
    {
        let rec = rec.clone();
        let sink = sink.clone();
        loom::verif::set_observer(Some(Box::new(move |it: Iteration| {
            let mut r = rec.lock().unwrap();
            let data = IterData {
                index: it.index,
                results: std::mem::take(&mut r.results),
                history: std::mem::take(&mut r.history),
                notes: std::mem::take(&mut r.notes),
                path: it.branches,
                pos: it.pos,
                panicked: it.panicked,
            };
            drop(r);
            let mut s = sink.lock().unwrap();
            s.1 += 1;
            s.0.on_iter(&data);
        })));
    }
    CUR.with(|c| *c.borrow_mut() = Some(rec.clone()));

    let mut b = loom::model::Builder::new();
    b.preemption_bound = cfg.preemption_bound;
    b.max_branches = cfg.max_branches;
    b.max_threads = cfg.max_threads;
    b.checkpoint_file = cfg.checkpoint_file.as_ref().map(|s| s.into());
    if let Some(i) = cfg.checkpoint_interval {
        b.checkpoint_interval = i;
    }
    b.max_permutations = cfg.max_permutations;
    b.max_duration = cfg.max_duration_s.map(std::time::Duration::from_secs);
    b.location = cfg.location;
    b.log = false;
    b.expect_explicit_explore = cfg.expect_explicit_explore;

    let cap = cfg.iter_cap;
    let stop_at = cfg.stop_at_iter;
    let fail_outcome = cfg.fail_outcome.clone();
    let snapshot = if cfg.snapshot_checkpoints { cfg.checkpoint_file.clone() } else { None };
    let want_fp = cfg.fingerprint;
    let res = {
        let prog = prog.clone();
        let rec = rec.clone();
        catch_unwind(AssertUnwindSafe(move || {
            b.check(move || {
                let n = {
                    let mut r = rec.lock().unwrap();
                    r.started += 1;
                    r.results = prog.threads.iter().map(|t| vec![Res::Nr; t.len()]).collect();
                    r.history.clear();
                    r.notes.clear();
                    r.started
                };
                if cap != 0 && n > cap {
                    panic!("{}", CAP_TAG);
                }
                if let Some(f) = &snapshot {
                    let _ = std::fs::copy(f, format!("{}.{}", f, n));
                }
                if stop_at == Some(n) {
                    panic!("{}9999", USER_TAG);
                }
                if want_fp {
                    let fp = loom::verif::fingerprint();
                    let mut r = rec.lock().unwrap();
                    for (i, x) in fp.iter().enumerate() {
                        r.notes.push((200, i as u64, *x as u64));
                    }
                    let (ex, sk) = loom::verif::path_flags();
                    r.notes.push((202, ex as u64, sk as u64));
                    let id = format!("{:?}", loom::thread::current().id());
                    r.notes.push((201, 0, if id == "ThreadId(0)" { 0 } else { 1 }));
                }
                run_iteration(&prog, &rec);
                if let Some(fo) = &fail_outcome {
                    let o = fmt_outcome(&rec.lock().unwrap().results);
                    if &o == fo {
                        panic!("{}7777", USER_TAG);
                    }
                }
            })
        }))
    };

    loom::verif::set_observer(None);
    CUR.with(|c| *c.borrow_mut() = None);

    let (verdict, message) = match res {
        Ok(()) => (Verdict::Ok, String::new()),
        Err(p) => {
            let msg = if let Some(s) = p.downcast_ref::<&str>() {
                s.to_string()
            } else if let Some(s) = p.downcast_ref::<String>() {
                s.clone()
            } else {
                "<non-string panic payload>".to_string()
            };
            (classify(&msg), msg)
        }
    };
    let (s, n) = match Arc::try_unwrap(sink) {
        Ok(m) => m.into_inner().unwrap(),
        Err(_) => panic!("sink still shared"),
    };
    (RunSummary { verdict, message, iterations: n }, s)
}

// ------------------------------------------------------------------------------------------
// the interpreter
// ------------------------------------------------------------------------------------------

use loom::sync::atomic::AtomicUsize;

pub struct Payload {
    arc: usize,
    cell: Option<usize>,
    rmw: Option<usize>,
    panics: bool,
    objs: *const SObjs,
}

impl Drop for Payload {
    fn drop(&mut self) {
        // SAFETY: payloads are dropped before the object container (handles live inside it or in
        // thread frames that hold an Rc to it)
        let o = unsafe { &*self.objs };
        o.payload_drops.borrow_mut()[self.arc] += 1;
        if let Some(c) = self.cell {
            o.cells[c].with_mut(|p| unsafe { *p += 1 });
        }
        if self.panics && !std::thread::panicking() {
            panic!("{}4242", USER_TAG);
        }
        if let Some(a) = self.rmw {
            // like a hand-rolled reference count: a load and an RMW inside a destructor
            let _ = o.atomics[a].load(std::sync::atomic::Ordering::Acquire);
            o.atomics[a].fetch_add(1, std::sync::atomic::Ordering::AcqRel);
        }
    }
}

type Handle = loom::sync::Arc<Payload>;

/// A channel message; its `Drop` may perform a loom RMW (like a payload owning an Arc)
pub struct Msg {
    v: u64,
    rmw: Option<usize>,
    objs: *const SObjs,
}

impl Drop for Msg {
    fn drop(&mut self) {
        if let Some(a) = self.rmw {
            // SAFETY: channels are declared before the atomics in SObjs (dropped first)
            let o = unsafe { &*self.objs };
            o.atomics[a].fetch_add(1, std::sync::atomic::Ordering::SeqCst);
        }
    }
}

pub struct SObjs {
    // `handles` first: fields drop in declaration order and a payload's `Drop` touches
    // `payload_drops` and `cells`
    handles: Vec<RefCell<Option<Handle>>>,
    // channels before the atomics: a message's `Drop` may touch an atomic
    tx: Vec<loom::sync::mpsc::Sender<Msg>>,
    rx: Vec<RefCell<Option<loom::sync::mpsc::Receiver<Msg>>>>,
    atomics: Vec<AtomicUsize>,
    cells: Vec<loom::cell::UnsafeCell<u64>>,
    // `Option` so that `into_inner` can move the lock out (main, after every join)
    mutexes: Vec<std::cell::UnsafeCell<Option<loom::sync::Mutex<u64>>>>,
    rwlocks: Vec<std::cell::UnsafeCell<Option<loom::sync::RwLock<u64>>>>,
    condvars: Vec<loom::sync::Condvar>,
    notifies: Vec<loom::sync::Notify>,
    payload_drops: RefCell<Vec<u64>>,
    tracks: Vec<RefCell<Option<loom::alloc::Track<u64>>>>,
    allocs: Vec<RefCell<Option<*mut u8>>>,
    joins: Vec<RefCell<Option<loom::thread::JoinHandle<()>>>>,
    threads: Vec<RefCell<Option<loom::thread::Thread>>>,
}

impl SObjs {
    fn new(p: &Program) -> SObjs {
        let o = &p.objs;
        let mut tx = vec![];
        let mut rx = vec![];
        for _ in 0..o.chans {
            let (t, r) = loom::sync::mpsc::channel::<Msg>();
            tx.push(t);
            rx.push(RefCell::new(Some(r)));
        }
        SObjs {
            atomics: o.atomics.iter().map(|v| AtomicUsize::new(*v as usize)).collect(),
            cells: (0..o.cells).map(|_| loom::cell::UnsafeCell::new(0)).collect(),
            mutexes: (0..o.mutexes).map(|_| std::cell::UnsafeCell::new(Some(loom::sync::Mutex::new(0)))).collect(),
            rwlocks: (0..o.rwlocks).map(|_| std::cell::UnsafeCell::new(Some(loom::sync::RwLock::new(0)))).collect(),
            condvars: (0..o.condvars).map(|_| loom::sync::Condvar::new()).collect(),
            notifies: (0..o.notifies).map(|_| loom::sync::Notify::new()).collect(),
            tx,
            rx,
            handles: (0..o.handles).map(|_| RefCell::new(None)).collect(),
            payload_drops: RefCell::new(vec![0; o.arcs.len()]),
            tracks: (0..o.tracks).map(|_| RefCell::new(None)).collect(),
            allocs: (0..o.allocs).map(|_| RefCell::new(None)).collect(),
            joins: (0..p.threads.len()).map(|_| RefCell::new(None)).collect(),
            threads: (0..p.threads.len()).map(|_| RefCell::new(None)).collect(),
        }
    }
}

impl SObjs {
    // SAFETY (all four): loom threads of one execution never run in parallel, and a lock is only
    // taken out of its slot by main once no guard exists (family well-formedness).
    fn mx(&self, m: usize) -> &'static loom::sync::Mutex<u64> {
        unsafe { &*((*self.mutexes[m].get()).as_ref().expect("mutex was consumed") as *const _) }
    }
    fn rw(&self, l: usize) -> &'static loom::sync::RwLock<u64> {
        unsafe { &*((*self.rwlocks[l].get()).as_ref().expect("rwlock was consumed") as *const _) }
    }
    #[allow(clippy::mut_from_ref)]
    fn mx_slot(&self, m: usize) -> &mut Option<loom::sync::Mutex<u64>> {
        unsafe { &mut *self.mutexes[m].get() }
    }
    #[allow(clippy::mut_from_ref)]
    fn rw_slot(&self, l: usize) -> &mut Option<loom::sync::RwLock<u64>> {
        unsafe { &mut *self.rwlocks[l].get() }
    }
}

fn run_iteration(prog: &Arc<Program>, rec: &Arc<Mutex<Rec>>) {
    let objs = Rc::new(SObjs::new(prog));
    *objs.threads[0].borrow_mut() = Some(loom::thread::current());
    exec_thread(0, prog.clone(), objs, rec.clone());
}

/// open `get()` / `get_mut()` accesses of one thread on one cell
type CellG = (Vec<loom::cell::ConstPtr<u64>>, Option<loom::cell::MutPtr<u64>>);

enum RwG {
    R(loom::sync::RwLockReadGuard<'static, u64>),
    W(loom::sync::RwLockWriteGuard<'static, u64>),
}

fn layout() -> std::alloc::Layout {
    std::alloc::Layout::from_size_align(8, 8).unwrap()
}

fn exec_thread(t: usize, prog: Arc<Program>, objs: Rc<SObjs>, rec: Arc<Mutex<Rec>>) {
    // `o` outlives the guards below: `objs` (declared first) is dropped last.
    let o: &'static SObjs = unsafe { &*(Rc::as_ptr(&objs)) };
    let mut mg: Vec<Option<loom::sync::MutexGuard<'static, u64>>> = (0..o.mutexes.len()).map(|_| None).collect();
    let mut rg: Vec<Option<RwG>> = (0..o.rwlocks.len()).map(|_| None).collect();
    let mut cg: Vec<CellG> = (0..o.cells.len()).map(|_| (vec![], None)).collect();
    let mut results: Vec<Res> = Vec::with_capacity(prog.threads[t].len());
    // handles moved into this thread's frame by `ArcHold` (dropped by unwinding on a panic)
    let mut own: Vec<Option<Handle>> = (0..o.handles.len()).map(|_| None).collect();

    for (i, op) in prog.threads[t].iter().enumerate() {
        let r = if op.g.map(|g| results.get(g.idx) != Some(&g.res)).unwrap_or(false) {
            Res::Skip
        } else {
            exec_held(t, &op.k, &prog, &objs, o, &rec, &mut mg, &mut rg, &mut cg, &mut own)
        };
        results.push(r);
        let mut rc = rec.lock().unwrap();
        rc.results[t][i] = r;
        rc.history.push((t as u8, i as u8, r));
    }
    // release in a fixed order (guards first)
    drop(cg);
    drop(mg);
    drop(rg);
    drop(own);
}

/// Ops on a handle that lives in the thread's own frame: move it to the shared slot for the
/// duration of the op (no loom operation involved in the move).
#[allow(clippy::too_many_arguments)]
fn exec_held(
    t: usize,
    k: &K,
    prog: &Arc<Program>,
    objs: &Rc<SObjs>,
    o: &'static SObjs,
    rec: &Arc<Mutex<Rec>>,
    mg: &mut [Option<loom::sync::MutexGuard<'static, u64>>],
    rg: &mut [Option<RwG>],
    cg: &mut [CellG],
    own: &mut [Option<Handle>],
) -> Res {
    if let K::ArcHold { h } = *k {
        own[h] = o.handles[h].borrow_mut().take();
        return Res::U;
    }
    let slot = match *k {
        K::ArcClone { from, .. } => Some(from),
        K::ArcDrop { h } | K::ArcForget { h } | K::ArcCount { h } | K::ArcGetMut { h } | K::ArcTryUnwrap { h } | K::ArcRawRoundTrip { h } | K::ArcIncStrong { h, .. } | K::ArcDecStrong { h } => Some(h),
        _ => None,
    };
    let held = slot.filter(|h| own[*h].is_some());
    if let Some(h) = held {
        *o.handles[h].borrow_mut() = own[h].take();
    }
    let r = exec_op(t, k, prog, objs, o, rec, mg, rg, cg);
    if let Some(h) = held {
        own[h] = o.handles[h].borrow_mut().take();
    }
    r
}

#[allow(clippy::too_many_arguments)]
fn exec_op(
    _t: usize,
    k: &K,
    prog: &Arc<Program>,
    objs: &Rc<SObjs>,
    o: &'static SObjs,
    rec: &Arc<Mutex<Rec>>,
    mg: &mut [Option<loom::sync::MutexGuard<'static, u64>>],
    rg: &mut [Option<RwG>],
    cg: &mut [CellG],
) -> Res {
    match *k {
        K::Load { a, mo } => Res::V(o.atomics[a].load(mo.std()) as u64),
        K::Store { a, v, mo } => {
            o.atomics[a].store(v as usize, mo.std());
            Res::U
        }
        K::Swap { a, v, mo } => Res::V(o.atomics[a].swap(v as usize, mo.std()) as u64),
        K::FetchAdd { a, v, mo } => Res::V(o.atomics[a].fetch_add(v as usize, mo.std()) as u64),
        K::Cas { a, exp, new, s, f } => match o.atomics[a].compare_exchange(exp as usize, new as usize, s.std(), f.std()) {
            Ok(v) => Res::Ok(v as u64),
            Err(v) => Res::Err(v as u64),
        },
        K::Fence { mo } => {
            loom::sync::atomic::fence(mo.std());
            Res::U
        }
        K::UnsyncLoad { a } => {
            let _ = unsafe { o.atomics[a].unsync_load() };
            Res::U
        }
        K::WithMut { a } => {
            // deliberate misuse: `with_mut` needs `&mut`, which a shared atomic cannot give
            let p = &o.atomics[a] as *const AtomicUsize as *mut AtomicUsize;
            unsafe { (*p).with_mut(|v| *v) };
            Res::U
        }
        K::Await { a, mo, want } => loop {
            let v = o.atomics[a].load(mo.std()) as u64;
            if v == want {
                break Res::V(v);
            }
            if prog.objs.spin_hint {
                loom::hint::spin_loop();
            } else {
                loom::thread::yield_now();
            }
        },
        K::Await2 { a, b, mo, wa, wb } => {
            while !(o.atomics[a].load(mo.std()) as u64 == wa && o.atomics[b].load(mo.std()) as u64 == wb) {
                if prog.objs.spin_hint {
                    loom::hint::spin_loop();
                } else {
                    loom::thread::yield_now();
                }
            }
            Res::U
        }
        K::AwaitSpun { a, mo, want } => {
            let mut spun = 0;
            loop {
                let v = o.atomics[a].load(mo.std()) as u64;
                if v == want {
                    break Res::V(spun);
                }
                spun = 1;
                if prog.objs.spin_hint {
                    loom::hint::spin_loop();
                } else {
                    loom::thread::yield_now();
                }
            }
        }
        K::CellRead { c } => {
            o.cells[c].with(|p| unsafe { std::ptr::read_volatile(p) });
            Res::U
        }
        K::CellWrite { c } => {
            o.cells[c].with_mut(|p| unsafe { *p += 1 });
            Res::U
        }
        K::CellBegin { c, w: false } => {
            cg[c].0.push(o.cells[c].get());
            Res::U
        }
        K::CellBegin { c, w: true } => {
            cg[c].1 = Some(o.cells[c].get_mut());
            Res::U
        }
        K::CellEnd { c, w: false } => {
            drop(cg[c].0.pop().expect("end without get"));
            Res::U
        }
        K::CellEnd { c, w: true } => {
            drop(cg[c].1.take().expect("end without get_mut"));
            Res::U
        }
        K::Lock { m } => {
            let g = o.mx(m).lock().unwrap();
            mg[m] = Some(g);
            Res::U
        }
        K::TryLock { m } => match o.mx(m).try_lock() {
            Ok(g) => {
                mg[m] = Some(g);
                Res::Ok(0)
            }
            Err(_) => Res::Err(0),
        },
        K::Unlock { m } => {
            drop(mg[m].take().expect("unlock without guard"));
            Res::U
        }
        K::Read { l } => {
            rg[l] = Some(RwG::R(o.rw(l).read().unwrap()));
            Res::U
        }
        K::TryRead { l } => match o.rw(l).try_read() {
            Ok(g) => {
                rg[l] = Some(RwG::R(g));
                Res::Ok(0)
            }
            Err(_) => Res::Err(0),
        },
        K::Write { l } => {
            rg[l] = Some(RwG::W(o.rw(l).write().unwrap()));
            Res::U
        }
        K::TryWrite { l } => match o.rw(l).try_write() {
            Ok(g) => {
                rg[l] = Some(RwG::W(g));
                Res::Ok(0)
            }
            Err(_) => Res::Err(0),
        },
        K::UnlockR { l } | K::UnlockW { l } => {
            drop(rg[l].take().expect("unlock without guard"));
            Res::U
        }
        K::GSet { m, v } => {
            **mg[m].as_mut().expect("gset without guard") = v;
            Res::U
        }
        K::GGet { m } => Res::V(**mg[m].as_ref().expect("gget without guard")),
        K::LSet { l, v } => match rg[l].as_mut().expect("lset without guard") {
            RwG::W(g) => {
                **g = v;
                Res::U
            }
            RwG::R(_) => panic!("lset through a read guard"),
        },
        K::LGet { l } => Res::V(match rg[l].as_ref().expect("lget without guard") {
            RwG::W(g) => **g,
            RwG::R(g) => **g,
        }),
        K::MGetMut { m } => Res::V(*o.mx_slot(m).as_mut().expect("mutex was consumed").get_mut().unwrap()),
        K::LGetMut { l } => Res::V(*o.rw_slot(l).as_mut().expect("rwlock was consumed").get_mut().unwrap()),
        K::MIntoInner { m } => Res::V(o.mx_slot(m).take().expect("mutex was consumed").into_inner().unwrap()),
        K::LIntoInner { l } => Res::V(o.rw_slot(l).take().expect("rwlock was consumed").into_inner().unwrap()),
        K::Wait { cv, m } => {
            let g = mg[m].take().expect("wait without guard");
            let g = o.condvars[cv].wait(g).unwrap();
            mg[m] = Some(g);
            Res::U
        }
        K::NotifyOne { cv } => {
            o.condvars[cv].notify_one();
            Res::U
        }
        K::NotifyAll { cv } => {
            o.condvars[cv].notify_all();
            Res::U
        }
        K::NWait { n } => {
            o.notifies[n].wait();
            Res::U
        }
        K::NNotify { n } => {
            o.notifies[n].notify();
            Res::U
        }
        K::Park => {
            loom::thread::park();
            Res::U
        }
        K::NWaitUntil { n, a, mo, want } => {
            while o.atomics[a].load(mo.std()) as u64 != want {
                o.notifies[n].wait();
            }
            Res::U
        }
        K::ParkUntil { a, mo, want } => {
            while o.atomics[a].load(mo.std()) as u64 != want {
                loom::thread::park();
            }
            Res::U
        }
        K::CvWaitUntil { cv, m, a, mo, want } => {
            let mut g = mg[m].take().expect("wait without guard");
            while o.atomics[a].load(mo.std()) as u64 != want {
                g = o.condvars[cv].wait(g).unwrap();
            }
            mg[m] = Some(g);
            Res::U
        }
        K::Unpark { t } => {
            let th = o.threads[t].borrow().clone().expect("unpark of a thread that was not spawned yet");
            th.unpark();
            Res::U
        }
        K::Send { ch, v } => {
            // Ok/Err is deliberately not recorded: disconnection semantics are out of scope
            let m = Msg { v, rmw: prog.objs.chan_rmw.get(ch).copied().flatten(), objs: Rc::as_ptr(objs) };
            let _ = o.tx[ch].send(m);
            Res::U
        }
        K::Recv { ch } => {
            let rx = o.rx[ch].borrow_mut().take().expect("receiver gone");
            let r = rx.recv();
            *o.rx[ch].borrow_mut() = Some(rx);
            match r {
                Ok(m) => Res::Ok(m.v),
                Err(_) => Res::Err(0),
            }
        }
        K::TryRecv { ch } => {
            let rx = o.rx[ch].borrow_mut().take().expect("receiver gone");
            let r = rx.try_recv();
            *o.rx[ch].borrow_mut() = Some(rx);
            match r {
                Ok(m) => Res::Ok(m.v),
                Err(std::sync::mpsc::TryRecvError::Empty) => Res::Err(0),
                Err(std::sync::mpsc::TryRecvError::Disconnected) => Res::Err(1),
            }
        }
        K::DropRx { ch } => {
            let rx = o.rx[ch].borrow_mut().take().expect("receiver gone");
            drop(rx);
            Res::U
        }
        K::ForgetRx { ch } => {
            let rx = o.rx[ch].borrow_mut().take().expect("receiver gone");
            std::mem::forget(rx);
            Res::U
        }
        K::ArcHold { .. } => unreachable!("handled by exec_held"),
        K::ArcNew { h, arc } => {
            let p = Payload { arc, cell: prog.objs.arcs[arc], rmw: prog.objs.arc_rmw.get(arc).copied().flatten(), panics: prog.objs.arc_panic.get(arc).copied().unwrap_or(false), objs: Rc::as_ptr(objs) };
            let a = loom::sync::Arc::new(p);
            *o.handles[h].borrow_mut() = Some(a);
            Res::U
        }
        K::ArcClone { from, to } => {
            let a = o.handles[from].borrow_mut().take().expect("empty handle");
            let b = a.clone();
            *o.handles[from].borrow_mut() = Some(a);
            *o.handles[to].borrow_mut() = Some(b);
            Res::U
        }
        K::ArcDrop { h } => {
            let a = o.handles[h].borrow_mut().take().expect("empty handle");
            let arc = a.arc;
            let before = o.payload_drops.borrow()[arc];
            drop(a);
            let after = o.payload_drops.borrow()[arc];
            Res::V(after - before)
        }
        K::ArcForget { h } => {
            let a = o.handles[h].borrow_mut().take().expect("empty handle");
            std::mem::forget(a);
            Res::U
        }
        K::ArcCount { h } => {
            let a = o.handles[h].borrow_mut().take().expect("empty handle");
            let c = loom::sync::Arc::strong_count(&a);
            *o.handles[h].borrow_mut() = Some(a);
            Res::V(c as u64)
        }
        K::ArcGetMut { h } => {
            let mut a = o.handles[h].borrow_mut().take().expect("empty handle");
            let r = loom::sync::Arc::get_mut(&mut a).is_some();
            *o.handles[h].borrow_mut() = Some(a);
            Res::V(r as u64)
        }
        K::ArcTryUnwrap { h } => {
            let a = o.handles[h].borrow_mut().take().expect("empty handle");
            let arc = a.arc;
            match loom::sync::Arc::try_unwrap(a) {
                Ok(p) => {
                    let before = o.payload_drops.borrow()[arc];
                    drop(p);
                    let after = o.payload_drops.borrow()[arc];
                    Res::Ok(after - before)
                }
                Err(a) => {
                    *o.handles[h].borrow_mut() = Some(a);
                    Res::Err(0)
                }
            }
        }
        K::ArcPtrEq { h, h2 } => {
            let a = o.handles[h].borrow();
            let b = o.handles[h2].borrow();
            Res::V(loom::sync::Arc::ptr_eq(a.as_ref().unwrap(), b.as_ref().unwrap()) as u64)
        }
        K::ArcRawRoundTrip { h } => {
            let a = o.handles[h].borrow_mut().take().expect("empty handle");
            let p = loom::sync::Arc::into_raw(a);
            let a = unsafe { loom::sync::Arc::from_raw(p) };
            *o.handles[h].borrow_mut() = Some(a);
            Res::U
        }
        K::ArcIncStrong { h, to } => {
            let a = o.handles[h].borrow_mut().take().expect("empty handle");
            let p = loom::sync::Arc::as_ptr(&a);
            unsafe { loom::sync::Arc::increment_strong_count(p) };
            let b = unsafe { loom::sync::Arc::from_raw(p) };
            *o.handles[h].borrow_mut() = Some(a);
            *o.handles[to].borrow_mut() = Some(b);
            Res::U
        }
        K::ArcDecStrong { h } => {
            let a = o.handles[h].borrow_mut().take().expect("empty handle");
            let arc = a.arc;
            let before = o.payload_drops.borrow()[arc];
            let p = loom::sync::Arc::into_raw(a);
            unsafe { loom::sync::Arc::decrement_strong_count(p) };
            let after = o.payload_drops.borrow()[arc];
            Res::V(after - before)
        }
        K::TrackNew { k } => {
            *o.tracks[k].borrow_mut() = Some(loom::alloc::Track::new(0));
            Res::U
        }
        K::TrackDrop { k } => {
            let tr = o.tracks[k].borrow_mut().take().expect("no track");
            drop(tr);
            Res::U
        }
        K::TrackForget { k } => {
            let tr = o.tracks[k].borrow_mut().take().expect("no track");
            std::mem::forget(tr);
            Res::U
        }
        K::Alloc { k } => {
            let p = unsafe { loom::alloc::alloc(layout()) };
            *o.allocs[k].borrow_mut() = Some(p);
            Res::U
        }
        K::Dealloc { k } => {
            let p = o.allocs[k].borrow_mut().take().expect("no allocation");
            unsafe { loom::alloc::dealloc(p, layout()) };
            Res::U
        }
        K::TlsWith { k } => crate::statics::tls_with(prog.objs.tls[k], k),
        K::TlsNested { k, k2 } => crate::statics::tls_nested(prog.objs.tls[k], k, prog.objs.tls[k2], k2),
        K::LazyGet { k } => crate::statics::lazy_get(prog.objs.lazies[k], k),
        K::Spawn { t } => {
            let (p2, o2, r2) = (prog.clone(), objs.clone(), rec.clone());
            let jh = loom::thread::spawn(move || exec_thread(t, p2, o2, r2));
            *o.threads[t].borrow_mut() = Some(jh.thread().clone());
            *o.joins[t].borrow_mut() = Some(jh);
            Res::U
        }
        K::Join { t } => {
            let jh = o.joins[t].borrow_mut().take().expect("join without handle");
            jh.join().unwrap();
            Res::U
        }
        K::Mark => {
            note(40, loom::verif::path_pos() as u64, 0);
            Res::U
        }
        K::Yield => {
            loom::thread::yield_now();
            Res::U
        }
        K::StopExploring => {
            note(30, loom::verif::path_pos() as u64, 0);
            loom::stop_exploring();
            Res::U
        }
        K::Explore => {
            note(31, loom::verif::path_pos() as u64, 0);
            loom::explore();
            Res::U
        }
        K::SkipBranch => {
            note(32, loom::verif::path_pos() as u64, 0);
            loom::skip_branch();
            Res::U
        }
        K::PanicHere { tag } => panic!("{}{}", USER_TAG, tag),
    }
}
