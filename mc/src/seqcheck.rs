//! C12: loom atomics compute what std atomics compute (family SEQ).
//!
//! Every operation sequence up to a depth over a boundary operand alphabet, for every atomic
//! type, executed by one thread inside `loom::model` side by side with the std atomic.

use crate::pool::{Job, JobResult, Viol};
use serde_json::json;
use std::sync::atomic::Ordering::{self, *};
use std::sync::{Arc, Mutex};

pub const TYPES: [&str; 12] = ["u8", "u16", "u32", "u64", "usize", "i8", "i16", "i32", "i64", "isize", "bool", "ptr"];

#[derive(Clone, Copy, Debug, PartialEq, Eq)]
pub enum SOp {
    Load(Ordering),
    Store(usize, Ordering),
    Swap(usize, Ordering),
    Cx(usize, usize, Ordering, Ordering),
    Cxw(usize, usize, Ordering, Ordering),
    Cas(usize, usize, Ordering),
    Fadd(usize, Ordering),
    Fsub(usize, Ordering),
    Fand(usize, Ordering),
    Fnand(usize, Ordering),
    For(usize, Ordering),
    Fxor(usize, Ordering),
    Fmax(usize, Ordering),
    Fmin(usize, Ordering),
    /// fetch_update with `|x| Some(x wrapping_add v)` (bool: xor, ptr: replace)
    FupdSome(usize, Ordering, Ordering),
    FupdNone(Ordering, Ordering),
    /// fetch_update whose closure, at its first call, stores `v` into the atomic itself and asks
    /// for an update (the internal compare-exchange then fails unless `v` is the current value);
    /// at later calls it asks for an update again (true) or declines (false)
    FupdRe(usize, bool),
    /// with_mut(|x| { let old = *x; *x = v; old })
    WithMut(usize),
    Unsync,
}

const LOADS: [Ordering; 3] = [Relaxed, Acquire, SeqCst];
const STORES: [Ordering; 3] = [Relaxed, Release, SeqCst];
const RMWS: [Ordering; 5] = [Relaxed, Acquire, Release, AcqRel, SeqCst];

/// Alphabet with SeqCst orderings only. `nv` operand values; `news`: indices used as the "new"
/// operand of compare-exchange style ops.
fn alphabet(nv: usize, news: &[usize], kind: u8) -> Vec<SOp> {
    let mut a = vec![SOp::Load(SeqCst), SOp::Unsync, SOp::FupdNone(SeqCst, SeqCst)];
    for v in 0..nv {
        a.push(SOp::FupdRe(v, false));
        a.push(SOp::FupdRe(v, true));
        a.push(SOp::Store(v, SeqCst));
        a.push(SOp::Swap(v, SeqCst));
        a.push(SOp::FupdSome(v, SeqCst, SeqCst));
        if kind != 1 {
            a.push(SOp::WithMut(v));
        }
        if kind == 0 {
            a.push(SOp::Fadd(v, SeqCst));
            a.push(SOp::Fsub(v, SeqCst));
            a.push(SOp::Fmax(v, SeqCst));
            a.push(SOp::Fmin(v, SeqCst));
        }
        if kind <= 1 {
            a.push(SOp::Fand(v, SeqCst));
            a.push(SOp::Fnand(v, SeqCst));
            a.push(SOp::For(v, SeqCst));
            a.push(SOp::Fxor(v, SeqCst));
        }
        for &n in news {
            a.push(SOp::Cx(v, n, SeqCst, SeqCst));
            a.push(SOp::Cxw(v, n, SeqCst, SeqCst));
            a.push(SOp::Cas(v, n, SeqCst));
        }
    }
    a
}

/// Every ordering combination valid for each op kind (used at depth 1)
fn ordering_variants(op: SOp) -> Vec<SOp> {
    let mut out = vec![];
    match op {
        SOp::Load(_) => LOADS.iter().for_each(|&o| out.push(SOp::Load(o))),
        SOp::Store(v, _) => STORES.iter().for_each(|&o| out.push(SOp::Store(v, o))),
        SOp::Swap(v, _) => RMWS.iter().for_each(|&o| out.push(SOp::Swap(v, o))),
        SOp::Cx(c, n, _, _) => {
            for &s in &RMWS {
                for &f in &LOADS {
                    out.push(SOp::Cx(c, n, s, f));
                }
            }
        }
        SOp::Cxw(c, n, _, _) => {
            for &s in &RMWS {
                for &f in &LOADS {
                    out.push(SOp::Cxw(c, n, s, f));
                }
            }
        }
        SOp::Cas(c, n, _) => RMWS.iter().for_each(|&o| out.push(SOp::Cas(c, n, o))),
        SOp::Fadd(v, _) => RMWS.iter().for_each(|&o| out.push(SOp::Fadd(v, o))),
        SOp::Fsub(v, _) => RMWS.iter().for_each(|&o| out.push(SOp::Fsub(v, o))),
        SOp::Fand(v, _) => RMWS.iter().for_each(|&o| out.push(SOp::Fand(v, o))),
        SOp::Fnand(v, _) => RMWS.iter().for_each(|&o| out.push(SOp::Fnand(v, o))),
        SOp::For(v, _) => RMWS.iter().for_each(|&o| out.push(SOp::For(v, o))),
        SOp::Fxor(v, _) => RMWS.iter().for_each(|&o| out.push(SOp::Fxor(v, o))),
        SOp::Fmax(v, _) => RMWS.iter().for_each(|&o| out.push(SOp::Fmax(v, o))),
        SOp::Fmin(v, _) => RMWS.iter().for_each(|&o| out.push(SOp::Fmin(v, o))),
        SOp::FupdSome(v, _, _) => {
            for &s in &RMWS {
                for &f in &LOADS {
                    out.push(SOp::FupdSome(v, s, f));
                }
            }
        }
        SOp::FupdNone(_, _) => {
            for &s in &RMWS {
                for &f in &LOADS {
                    out.push(SOp::FupdNone(s, f));
                }
            }
        }
        SOp::WithMut(_) | SOp::Unsync | SOp::FupdRe(_, _) => out.push(op),
    }
    out
}

/// Result of one op as text (Ok/Err shape included)
type R = String;

macro_rules! int_runner {
    ($fname:ident, $t:ty, $la:ty, $sa:ty) => {
        fn $fname(init: usize, seq: &[SOp], vals: &[i128]) -> (Vec<R>, Vec<R>) {
            let v = |i: usize| vals[i] as $t;
            let mut l = <$la>::new(v(init));
            let mut s = <$sa>::new(v(init));
            let mut lr = vec![];
            let mut sr = vec![];
            for op in seq {
                match *op {
                    SOp::Load(o) => {
                        lr.push(format!("{}", l.load(o)));
                        sr.push(format!("{}", s.load(o)));
                    }
                    SOp::Store(x, o) => {
                        l.store(v(x), o);
                        s.store(v(x), o);
                        lr.push("()".into());
                        sr.push("()".into());
                    }
                    SOp::Swap(x, o) => {
                        lr.push(format!("{}", l.swap(v(x), o)));
                        sr.push(format!("{}", s.swap(v(x), o)));
                    }
                    SOp::Cx(c, n, so, fo) => {
                        lr.push(format!("{:?}", l.compare_exchange(v(c), v(n), so, fo)));
                        sr.push(format!("{:?}", s.compare_exchange(v(c), v(n), so, fo)));
                    }
                    SOp::Cxw(c, n, so, fo) => {
                        lr.push(format!("{:?}", l.compare_exchange_weak(v(c), v(n), so, fo)));
                        // single thread on this host: the weak form does not fail spuriously; retry to be safe
                        let mut r = s.compare_exchange_weak(v(c), v(n), so, fo);
                        let mut tries = 0;
                        while let Err(e) = r {
                            if e != v(c) || tries > 100 {
                                break;
                            }
                            tries += 1;
                            r = s.compare_exchange_weak(v(c), v(n), so, fo);
                        }
                        sr.push(format!("{:?}", r));
                    }
                    #[allow(deprecated)]
                    SOp::Cas(c, n, o) => {
                        lr.push(format!("{}", l.compare_and_swap(v(c), v(n), o)));
                        sr.push(format!("{}", s.compare_and_swap(v(c), v(n), o)));
                    }
                    SOp::Fadd(x, o) => {
                        lr.push(format!("{}", l.fetch_add(v(x), o)));
                        sr.push(format!("{}", s.fetch_add(v(x), o)));
                    }
                    SOp::Fsub(x, o) => {
                        lr.push(format!("{}", l.fetch_sub(v(x), o)));
                        sr.push(format!("{}", s.fetch_sub(v(x), o)));
                    }
                    SOp::Fand(x, o) => {
                        lr.push(format!("{}", l.fetch_and(v(x), o)));
                        sr.push(format!("{}", s.fetch_and(v(x), o)));
                    }
                    SOp::Fnand(x, o) => {
                        lr.push(format!("{}", l.fetch_nand(v(x), o)));
                        sr.push(format!("{}", s.fetch_nand(v(x), o)));
                    }
                    SOp::For(x, o) => {
                        lr.push(format!("{}", l.fetch_or(v(x), o)));
                        sr.push(format!("{}", s.fetch_or(v(x), o)));
                    }
                    SOp::Fxor(x, o) => {
                        lr.push(format!("{}", l.fetch_xor(v(x), o)));
                        sr.push(format!("{}", s.fetch_xor(v(x), o)));
                    }
                    SOp::Fmax(x, o) => {
                        lr.push(format!("{}", l.fetch_max(v(x), o)));
                        sr.push(format!("{}", s.fetch_max(v(x), o)));
                    }
                    SOp::Fmin(x, o) => {
                        lr.push(format!("{}", l.fetch_min(v(x), o)));
                        sr.push(format!("{}", s.fetch_min(v(x), o)));
                    }
                    SOp::FupdSome(x, so, fo) => {
                        lr.push(format!("{:?}", l.fetch_update(so, fo, |y| Some(y.wrapping_add(v(x))))));
                        sr.push(format!("{:?}", s.fetch_update(so, fo, |y| Some(y.wrapping_add(v(x))))));
                    }
                    SOp::FupdNone(so, fo) => {
                        lr.push(format!("{:?}", l.fetch_update(so, fo, |_| None)));
                        sr.push(format!("{:?}", s.fetch_update(so, fo, |_| None)));
                    }
                    SOp::FupdRe(x, again) => {
                        let mut calls = 0;
                        lr.push(format!(
                            "{:?}",
                            l.fetch_update(SeqCst, SeqCst, |y| {
                                calls += 1;
                                if calls == 1 {
                                    l.store(v(x), SeqCst);
                                    Some(y.wrapping_add(1))
                                } else if again && calls < 50 {
                                    Some(y.wrapping_add(1))
                                } else {
                                    None
                                }
                            })
                        ));
                        let mut calls = 0;
                        sr.push(format!(
                            "{:?}",
                            s.fetch_update(SeqCst, SeqCst, |y| {
                                calls += 1;
                                if calls == 1 {
                                    s.store(v(x), SeqCst);
                                    Some(y.wrapping_add(1))
                                } else if again && calls < 50 {
                                    Some(y.wrapping_add(1))
                                } else {
                                    None
                                }
                            })
                        ));
                    }
                    SOp::WithMut(x) => {
                        lr.push(format!(
                            "{}",
                            l.with_mut(|y| {
                                let old = *y;
                                *y = v(x);
                                old
                            })
                        ));
                        let y = s.get_mut();
                        let old = *y;
                        *y = v(x);
                        sr.push(format!("{}", old));
                    }
                    SOp::Unsync => {
                        lr.push(format!("{}", unsafe { l.unsync_load() }));
                        sr.push(format!("{}", *s.get_mut()));
                    }
                }
            }
            lr.push(format!("final {}", l.into_inner()));
            sr.push(format!("final {}", s.into_inner()));
            (lr, sr)
        }
    };
}

int_runner!(run_u8, u8, loom::sync::atomic::AtomicU8, std::sync::atomic::AtomicU8);
int_runner!(run_u16, u16, loom::sync::atomic::AtomicU16, std::sync::atomic::AtomicU16);
int_runner!(run_u32, u32, loom::sync::atomic::AtomicU32, std::sync::atomic::AtomicU32);
int_runner!(run_u64, u64, loom::sync::atomic::AtomicU64, std::sync::atomic::AtomicU64);
int_runner!(run_usize, usize, loom::sync::atomic::AtomicUsize, std::sync::atomic::AtomicUsize);
int_runner!(run_i8, i8, loom::sync::atomic::AtomicI8, std::sync::atomic::AtomicI8);
int_runner!(run_i16, i16, loom::sync::atomic::AtomicI16, std::sync::atomic::AtomicI16);
int_runner!(run_i32, i32, loom::sync::atomic::AtomicI32, std::sync::atomic::AtomicI32);
int_runner!(run_i64, i64, loom::sync::atomic::AtomicI64, std::sync::atomic::AtomicI64);
int_runner!(run_isize, isize, loom::sync::atomic::AtomicIsize, std::sync::atomic::AtomicIsize);

fn run_bool(init: usize, seq: &[SOp], vals: &[i128]) -> (Vec<R>, Vec<R>) {
    let v = |i: usize| vals[i] != 0;
    let l = loom::sync::atomic::AtomicBool::new(v(init));
    let mut s = std::sync::atomic::AtomicBool::new(v(init));
    let mut lr = vec![];
    let mut sr = vec![];
    for op in seq {
        match *op {
            SOp::Load(o) => {
                lr.push(format!("{}", l.load(o)));
                sr.push(format!("{}", s.load(o)));
            }
            SOp::Store(x, o) => {
                l.store(v(x), o);
                s.store(v(x), o);
                lr.push("()".into());
                sr.push("()".into());
            }
            SOp::Swap(x, o) => {
                lr.push(format!("{}", l.swap(v(x), o)));
                sr.push(format!("{}", s.swap(v(x), o)));
            }
            SOp::Cx(c, n, so, fo) => {
                lr.push(format!("{:?}", l.compare_exchange(v(c), v(n), so, fo)));
                sr.push(format!("{:?}", s.compare_exchange(v(c), v(n), so, fo)));
            }
            SOp::Cxw(c, n, so, fo) => {
                lr.push(format!("{:?}", l.compare_exchange_weak(v(c), v(n), so, fo)));
                sr.push(format!("{:?}", s.compare_exchange(v(c), v(n), so, fo)));
            }
            #[allow(deprecated)]
            SOp::Cas(c, n, o) => {
                lr.push(format!("{}", l.compare_and_swap(v(c), v(n), o)));
                sr.push(format!("{}", s.compare_and_swap(v(c), v(n), o)));
            }
            SOp::Fand(x, o) => {
                lr.push(format!("{}", l.fetch_and(v(x), o)));
                sr.push(format!("{}", s.fetch_and(v(x), o)));
            }
            SOp::Fnand(x, o) => {
                lr.push(format!("{}", l.fetch_nand(v(x), o)));
                sr.push(format!("{}", s.fetch_nand(v(x), o)));
            }
            SOp::For(x, o) => {
                lr.push(format!("{}", l.fetch_or(v(x), o)));
                sr.push(format!("{}", s.fetch_or(v(x), o)));
            }
            SOp::Fxor(x, o) => {
                lr.push(format!("{}", l.fetch_xor(v(x), o)));
                sr.push(format!("{}", s.fetch_xor(v(x), o)));
            }
            SOp::FupdSome(x, so, fo) => {
                lr.push(format!("{:?}", l.fetch_update(so, fo, |y| Some(y ^ v(x)))));
                sr.push(format!("{:?}", s.fetch_update(so, fo, |y| Some(y ^ v(x)))));
            }
            SOp::FupdNone(so, fo) => {
                lr.push(format!("{:?}", l.fetch_update(so, fo, |_| None)));
                sr.push(format!("{:?}", s.fetch_update(so, fo, |_| None)));
            }
            SOp::FupdRe(x, again) => {
                let mut calls = 0;
                lr.push(format!(
                    "{:?}",
                    l.fetch_update(SeqCst, SeqCst, |y| {
                        calls += 1;
                        if calls == 1 {
                            l.store(v(x), SeqCst);
                            Some(!y)
                        } else if again && calls < 50 {
                            Some(!y)
                        } else {
                            None
                        }
                    })
                ));
                let mut calls = 0;
                sr.push(format!(
                    "{:?}",
                    s.fetch_update(SeqCst, SeqCst, |y| {
                        calls += 1;
                        if calls == 1 {
                            s.store(v(x), SeqCst);
                            Some(!y)
                        } else if again && calls < 50 {
                            Some(!y)
                        } else {
                            None
                        }
                    })
                ));
            }
            SOp::Unsync => {
                lr.push(format!("{}", unsafe { l.unsync_load() }));
                sr.push(format!("{}", *s.get_mut()));
            }
            _ => unreachable!("op not in the bool alphabet"),
        }
    }
    lr.push(format!("final {}", l.into_inner()));
    sr.push(format!("final {}", s.into_inner()));
    (lr, sr)
}

fn run_ptr(init: usize, seq: &[SOp], vals: &[i128]) -> (Vec<R>, Vec<R>) {
    let v = |i: usize| vals[i] as usize as *mut u8;
    let mut l = loom::sync::atomic::AtomicPtr::<u8>::new(v(init));
    let mut s = std::sync::atomic::AtomicPtr::<u8>::new(v(init));
    let mut lr = vec![];
    let mut sr = vec![];
    for op in seq {
        match *op {
            SOp::Load(o) => {
                lr.push(format!("{:?}", l.load(o)));
                sr.push(format!("{:?}", s.load(o)));
            }
            SOp::Store(x, o) => {
                l.store(v(x), o);
                s.store(v(x), o);
                lr.push("()".into());
                sr.push("()".into());
            }
            SOp::Swap(x, o) => {
                lr.push(format!("{:?}", l.swap(v(x), o)));
                sr.push(format!("{:?}", s.swap(v(x), o)));
            }
            SOp::Cx(c, n, so, fo) => {
                lr.push(format!("{:?}", l.compare_exchange(v(c), v(n), so, fo)));
                sr.push(format!("{:?}", s.compare_exchange(v(c), v(n), so, fo)));
            }
            SOp::Cxw(c, n, so, fo) => {
                lr.push(format!("{:?}", l.compare_exchange_weak(v(c), v(n), so, fo)));
                sr.push(format!("{:?}", s.compare_exchange(v(c), v(n), so, fo)));
            }
            #[allow(deprecated)]
            SOp::Cas(c, n, o) => {
                lr.push(format!("{:?}", l.compare_and_swap(v(c), v(n), o)));
                sr.push(format!("{:?}", s.compare_and_swap(v(c), v(n), o)));
            }
            SOp::FupdSome(x, so, fo) => {
                lr.push(format!("{:?}", l.fetch_update(so, fo, |_| Some(v(x)))));
                sr.push(format!("{:?}", s.fetch_update(so, fo, |_| Some(v(x)))));
            }
            SOp::FupdNone(so, fo) => {
                lr.push(format!("{:?}", l.fetch_update(so, fo, |_| None)));
                sr.push(format!("{:?}", s.fetch_update(so, fo, |_| None)));
            }
            SOp::FupdRe(x, again) => {
                let mut calls = 0;
                lr.push(format!(
                    "{:?}",
                    l.fetch_update(SeqCst, SeqCst, |_| {
                        calls += 1;
                        if calls == 1 {
                            l.store(v(x), SeqCst);
                            Some(v(0))
                        } else if again && calls < 50 {
                            Some(v(0))
                        } else {
                            None
                        }
                    })
                ));
                let mut calls = 0;
                sr.push(format!(
                    "{:?}",
                    s.fetch_update(SeqCst, SeqCst, |_| {
                        calls += 1;
                        if calls == 1 {
                            s.store(v(x), SeqCst);
                            Some(v(0))
                        } else if again && calls < 50 {
                            Some(v(0))
                        } else {
                            None
                        }
                    })
                ));
            }
            SOp::WithMut(x) => {
                lr.push(format!(
                    "{:?}",
                    l.with_mut(|y| {
                        let old = *y;
                        *y = v(x);
                        old
                    })
                ));
                let y = s.get_mut();
                let old = *y;
                *y = v(x);
                sr.push(format!("{:?}", old));
            }
            SOp::Unsync => {
                lr.push(format!("{:?}", unsafe { l.unsync_load() }));
                sr.push(format!("{:?}", *s.get_mut()));
            }
            _ => unreachable!("op not in the pointer alphabet"),
        }
    }
    lr.push(format!("final {:?}", l.into_inner()));
    sr.push(format!("final {:?}", s.into_inner()));
    (lr, sr)
}

fn runner(ty: &str) -> fn(usize, &[SOp], &[i128]) -> (Vec<R>, Vec<R>) {
    match ty {
        "u8" => run_u8,
        "u16" => run_u16,
        "u32" => run_u32,
        "u64" => run_u64,
        "usize" => run_usize,
        "i8" => run_i8,
        "i16" => run_i16,
        "i32" => run_i32,
        "i64" => run_i64,
        "isize" => run_isize,
        "bool" => run_bool,
        "ptr" => run_ptr,
        _ => panic!("unknown type {}", ty),
    }
}

/// Boundary operands of a type (as i128, cast by the runner with wrapping truncation)
pub fn operands(ty: &str, reduced: bool) -> Vec<i128> {
    let (min, max): (i128, i128) = match ty {
        "u8" => (0, u8::MAX as i128),
        "u16" => (0, u16::MAX as i128),
        "u32" => (0, u32::MAX as i128),
        "u64" | "usize" => (0, u64::MAX as i128),
        "i8" => (i8::MIN as i128, i8::MAX as i128),
        "i16" => (i16::MIN as i128, i16::MAX as i128),
        "i32" => (i32::MIN as i128, i32::MAX as i128),
        "i64" | "isize" => (i64::MIN as i128, i64::MAX as i128),
        "bool" => return vec![0, 1],
        "ptr" => return if reduced { vec![0, 8, 0x1000] } else { vec![0, 8, 16, 0x1000, usize::MAX as i128 & !7] },
        _ => panic!("type"),
    };
    let mid: i128 = 0x5A5A_5A5A_5A5A_5A5A;
    let mut v = if reduced { vec![0, 1, max, min, -1] } else { vec![0, 1, 2, max, max - 1, min, min + 1, -1, mid] };
    // keep distinct *after* the cast the runner applies
    let bits = match ty {
        "u8" | "i8" => 8,
        "u16" | "i16" => 16,
        "u32" | "i32" => 32,
        _ => 64,
    };
    let mask: u128 = if bits == 64 { u64::MAX as u128 } else { (1u128 << bits) - 1 };
    let mut seen = vec![];
    v.retain(|x| {
        let k = (*x as u128) & mask;
        if seen.contains(&k) {
            false
        } else {
            seen.push(k);
            true
        }
    });
    v
}

fn kind_of(ty: &str) -> u8 {
    match ty {
        "bool" => 1,
        "ptr" => 2,
        _ => 0,
    }
}

pub fn eval(job: &Job) -> JobResult {
    let mut res = JobResult::default();
    let ty = job.extra["ty"].as_str().expect("ty").to_string();
    let depth = job.extra["depth"].as_u64().unwrap_or(2) as usize;
    let reduced = job.extra["reduced"].as_bool().unwrap_or(false);
    let init = job.extra["init"].as_u64().expect("init") as usize;
    let vals = operands(&ty, reduced);
    let news: Vec<usize> = if vals.len() <= 3 { (0..vals.len()).collect() } else { vec![0, 2.min(vals.len() - 1), vals.len() - 1] };
    let alpha = alphabet(vals.len(), &news, kind_of(&ty));
    let run = runner(&ty);
    let mismatches: Arc<Mutex<Vec<(Vec<SOp>, Vec<R>, Vec<R>)>>> = Arc::new(Mutex::new(vec![]));
    let counts: Arc<Mutex<(u64, u64, u64)>> = Arc::new(Mutex::new((0, 0, 0))); // sequences, op applications, model iterations
    let mut model_calls = 0u64;

    // one model call per batch; every batch must take exactly one iteration
    let mut run_chunk = |batch: Vec<Vec<SOp>>| {
        let vals = vals.clone();
        let mm = mismatches.clone();
        let cc = counts.clone();
        let batch = Arc::new(batch);
        let mut b = loom::model::Builder::new();
        b.max_branches = 2_000_000;
        b.log = false;
        model_calls += 1;
        let iters_here = Arc::new(std::sync::atomic::AtomicUsize::new(0));
        let ih = iters_here.clone();
        // a single-threaded model has exactly one execution: the run is cut after the third
        // iteration of a chunk (a decision point in single-threaded code would otherwise multiply
        // the iterations by the number of sequences in the chunk); the surplus is reported below
        let r = std::panic::catch_unwind(std::panic::AssertUnwindSafe(|| {
            b.check(move || {
                let k = ih.fetch_add(1, SeqCst);
                if k >= 3 {
                    panic!("VMC_C12_EXTRA_ITERATIONS");
                }
                let mut c = cc.lock().unwrap_or_else(|e| e.into_inner());
                c.2 += 1;
                for seq in batch.iter() {
                    let (lr, sr) = run(init, seq, &vals);
                    c.0 += 1;
                    c.1 += seq.len() as u64 + 1;
                    if lr != sr {
                        let mut m = mm.lock().unwrap_or_else(|e| e.into_inner());
                        if m.len() < 5 {
                            m.push((seq.clone(), lr, sr));
                        }
                    }
                }
            })
        }));
        if let Err(p) = r {
            let msg = p.downcast_ref::<&str>().map(|s| s.to_string()).or_else(|| p.downcast_ref::<String>().cloned()).unwrap_or_default();
            if !msg.contains("VMC_C12_EXTRA_ITERATIONS") {
                let mut m = mismatches.lock().unwrap_or_else(|e| e.into_inner());
                if m.len() < 5 {
                    m.push((vec![], vec![format!("loom panicked: {}", msg.lines().next().unwrap_or(""))], vec!["no panic".into()]));
                }
            }
        }
    };

    // loom's vector clocks are u16 and every operation advances one: keep a model call well
    // below 65k operations
    let mut run_batch = |batch: Vec<Vec<SOp>>| {
        let mut cur = vec![];
        let mut ops = 0usize;
        for s in batch {
            ops += s.len() + 2;
            cur.push(s);
            if ops > 20_000 {
                run_chunk(std::mem::take(&mut cur));
                ops = 0;
            }
        }
        if !cur.is_empty() {
            run_chunk(cur);
        }
    };

    // depth 1 with every ordering combination
    let mut d1: Vec<Vec<SOp>> = vec![];
    for &op in &alpha {
        for v in ordering_variants(op) {
            d1.push(vec![v]);
        }
    }
    run_batch(d1);
    // depth 2..=depth, batched by first op: once with SeqCst orderings and once with Relaxed ones
    // (loom applies extra rules to SeqCst accesses, which can mask a wrong candidate set)
    let relax = |op: SOp| -> SOp {
        match op {
            SOp::Load(_) => SOp::Load(Relaxed),
            SOp::Store(v, _) => SOp::Store(v, Relaxed),
            SOp::Swap(v, _) => SOp::Swap(v, Relaxed),
            SOp::Cx(c, n, _, _) => SOp::Cx(c, n, Relaxed, Relaxed),
            SOp::Cxw(c, n, _, _) => SOp::Cxw(c, n, Relaxed, Relaxed),
            SOp::Cas(c, n, _) => SOp::Cas(c, n, Relaxed),
            SOp::Fadd(v, _) => SOp::Fadd(v, Relaxed),
            SOp::Fsub(v, _) => SOp::Fsub(v, Relaxed),
            SOp::Fand(v, _) => SOp::Fand(v, Relaxed),
            SOp::Fnand(v, _) => SOp::Fnand(v, Relaxed),
            SOp::For(v, _) => SOp::For(v, Relaxed),
            SOp::Fxor(v, _) => SOp::Fxor(v, Relaxed),
            SOp::Fmax(v, _) => SOp::Fmax(v, Relaxed),
            SOp::Fmin(v, _) => SOp::Fmin(v, Relaxed),
            SOp::FupdSome(v, _, _) => SOp::FupdSome(v, Relaxed, Relaxed),
            SOp::FupdNone(_, _) => SOp::FupdNone(Relaxed, Relaxed),
            o => o,
        }
    };
    // ops that matter for "which store does a later access see": used for depth 3 when the full
    // alphabet only goes to depth 2
    let few = |v: usize| v == 0 || v == 1 || v + 1 == vals.len();
    let core: Vec<SOp> = alpha
        .iter()
        .cloned()
        .filter(|o| match *o {
            SOp::Load(_) | SOp::Unsync | SOp::FupdNone(_, _) => true,
            SOp::Store(v, _) | SOp::WithMut(v) | SOp::Swap(v, _) | SOp::Fadd(v, _) => few(v),
            SOp::Cx(c, n, _, _) => few(c) && few(n),
            _ => false,
        })
        .collect();
    if depth >= 2 {
        for relaxed in [false, true] {
            let f = |o: SOp| if relaxed { relax(o) } else { o };
            for &a in &alpha {
                let mut batch = vec![];
                for &b in &alpha {
                    batch.push(vec![f(a), f(b)]);
                    if depth >= 3 {
                        for &c in &alpha {
                            batch.push(vec![f(a), f(b), f(c)]);
                        }
                    }
                }
                run_batch(batch);
            }
            if depth == 2 {
                for &a in &core {
                    let mut batch = vec![];
                    for &b in &core {
                        for &c in &core {
                            batch.push(vec![f(a), f(b), f(c)]);
                        }
                    }
                    run_batch(batch);
                }
            } else {
                // thorough: depth 4 over the core alphabet
                for &a in &core {
                    for &b in &core {
                        let mut batch = vec![];
                        for &c in &core {
                            for &d in &core {
                                batch.push(vec![f(a), f(b), f(c), f(d)]);
                            }
                        }
                        run_batch(batch);
                    }
                }
            }
        }
    }
    // long sequences: n modifications (the store history is a ring of 7) followed by every
    // one- and two-op suffix that inspects the value
    {
        let nv = vals.len();
        let mut batch = vec![];
        let inspect: Vec<SOp> = alpha.iter().cloned().filter(|o| matches!(o, SOp::Load(_) | SOp::Unsync | SOp::WithMut(_) | SOp::Swap(_, _) | SOp::FupdNone(_, _) | SOp::Cx(_, _, _, _) | SOp::Fadd(_, _) | SOp::Fxor(_, _))).collect();
        let long_max = if depth >= 3 { 17 } else { 15 };
        for n in 4..=long_max {
            for variant in 0..3 {
                let prefix: Vec<SOp> = (0..n)
                    .map(|i| match variant {
                        0 => SOp::Store((i + 1) % nv, SeqCst),
                        1 => SOp::Swap((i + 2) % nv, SeqCst),
                        _ => SOp::FupdSome((i % (nv - 1)) + 1, SeqCst, SeqCst),
                    })
                    .collect();
                batch.push(prefix.clone());
                for relaxed in [false, true] {
                    let prefix: Vec<SOp> = if relaxed { prefix.iter().map(|o| relax(*o)).collect() } else { prefix.clone() };
                    for &a in &inspect {
                        let mut s1 = prefix.clone();
                        s1.push(if relaxed { relax(a) } else { a });
                        batch.push(s1.clone());
                        for &b in &[SOp::Load(if relaxed { Relaxed } else { SeqCst }), SOp::Unsync] {
                            let mut s2 = s1.clone();
                            s2.push(b);
                            batch.push(s2);
                        }
                    }
                }
            }
        }
        run_batch(batch);
    }
    let c = counts.lock().unwrap_or_else(|e| e.into_inner());
    res.states = c.0.max(1);
    res.transitions = c.1.max(1);
    res.loom_iterations = c.2;
    res.traces_validated = c.0;
    res.nontrivial = true;
    res.verdict = "Ok".into();
    let m = mismatches.lock().unwrap_or_else(|e| e.into_inner());
    if c.2 != model_calls {
        res.violations.push(Viol { kind: "extra_iterations".into(), detail: format!("{} init#{}", ty, init), expected: "a single-threaded model takes exactly one iteration".into(), observed: format!("{} iterations in {} model calls", c.2, model_calls), witness: json!({}) });
    }
    for (seq, lr, sr) in m.iter() {
        res.violations.push(Viol { kind: "value_mismatch".into(), detail: format!("{} init={} {:?}", ty, vals[init], seq), expected: format!("std: {:?}", sr), observed: format!("loom: {:?}", lr), witness: json!({}) });
    }
    res.sample = json!({"type": ty, "init": vals[init].to_string(), "operands": vals.iter().map(|v| v.to_string()).collect::<Vec<_>>(), "alphabet": alpha.len(), "depth": depth, "sequences": c.0, "op_applications": c.1, "example": format!("{:?}", alpha.iter().take(4).collect::<Vec<_>>())});
    res
}

/// Jobs of the SEQ family: one per (type, initial value)
pub fn jobs(tier: &str) -> Vec<Job> {
    let mut out = vec![];
    let (depth, reduced) = if tier == "quick" { (2, false) } else { (3, true) };
    for (ti, ty) in TYPES.iter().enumerate() {
        let n = operands(ty, reduced).len();
        for init in 0..n {
            // placeholder program: the type index and initial value make the id distinct
            let program = crate::ir::Program { name: format!("SEQ-{}-init{}", ty, init), objs: crate::ir::Objs { atomics: vec![ti as u64, init as u64], ..Default::default() }, threads: vec![vec![]] };
            out.push(Job { id: format!("C12-{}-{}", ty, init), check: "C12".into(), tier: tier.into(), program, cfg: Default::default(), extra: json!({"ty": ty, "depth": depth, "reduced": reduced, "init": init}) });
        }
    }
    // thorough also runs the full operand set at depth 2
    if tier != "quick" {
        let mut q = jobs("quick");
        for j in q.iter_mut() {
            j.tier = tier.into();
            j.id = format!("{}-d2", j.id);
            j.program.objs.atomics.push(2);
        }
        out.extend(q);
    }
    out
}
