//! C20: block_on and AtomicWaker never lose a wake-up (family FUT).
//!
//! A poll script (register / check, in some order, optionally a re-check) and 1-2 waker-thread
//! scripts. Reference: explicit-state search of an atomic-step specification (waker slot,
//! `block_on`'s notification flag with one spurious credit). Subject: the same scripts on
//! `loom::future::block_on`, a loom Mutex slot or `loom::future::AtomicWaker`.

use crate::pool::{Job, JobResult, Viol};
use crate::subject::{classify, Verdict};
use serde::{Deserialize, Serialize};
use serde_json::json;
use std::collections::HashSet;
use std::future::Future;
use std::pin::Pin;
use std::sync::atomic::Ordering::{Acquire, Release};
use std::sync::{Arc, Mutex};
use std::task::{Context, Poll, Waker};

#[derive(Clone, Copy, Debug, PartialEq, Eq, Hash, Serialize, Deserialize, PartialOrd, Ord)]
pub enum PStep {
    Register,
    Check,
    /// first poll only: wake the task's own waker (`cx.waker().wake_by_ref()` if true, else
    /// `cx.waker().clone().wake()`) and return Pending at once - a "yield once" future
    YieldOnce(bool),
}

#[derive(Clone, Copy, Debug, PartialEq, Eq, Hash, Serialize, Deserialize, PartialOrd, Ord)]
pub enum WStep {
    SetFlag,
    /// take the registered waker (if any) and wake it
    Wake,
    /// wake the registered waker by reference (it stays registered with a plain slot)
    WakeByRef,
    /// clone the registered waker (if any) into the thread
    CloneWaker,
    /// wake the clone held by the thread (consumes it)
    WakeHeld,
    /// drop the clone held by the thread
    DropHeld,
    /// wake the clone held by the thread by reference (it stays held)
    WakeHeldByRef,
}

#[derive(Clone, Debug, PartialEq, Eq, Hash, Serialize, Deserialize, PartialOrd, Ord)]
pub struct FutSpec {
    pub poll: Vec<PStep>,
    pub atomic_waker: bool,
    pub wakers: Vec<Vec<WStep>>,
    /// before anything else, another task (an earlier `block_on`) registers its waker and
    /// completes, leaving a stale waker behind
    #[serde(default)]
    pub prior: bool,
    /// the flag is written and read with `Relaxed`: what a waker thread did before its wake
    /// reaches the re-poll only through the wake itself
    #[serde(default)]
    pub relaxed: bool,
    /// the first poll hands a clone of its waker to every waker thread and spawns them (they
    /// start with a held clone of the blocked task's waker)
    #[serde(default)]
    pub handoff: bool,
    /// two `block_on` calls in a row on the same waker slot: the flag is a counter (each SetFlag
    /// adds one), round r completes once it is >= r, and every round has a waker and a
    /// notification flag of its own - a waker of round 1 that is woken (or put back) during round
    /// 2 is stale
    #[serde(default)]
    pub two_rounds: bool,
}

impl FutSpec {
    pub fn text(&self) -> String {
        format!("poll={:?} via={} wakers={:?}{}", self.poll, if self.atomic_waker { "AtomicWaker" } else { "slot" }, self.wakers, format!("{}{}{}", if self.prior { " prior-registration" } else { "" }, if self.relaxed { " relaxed-flag" } else { "" }, if self.handoff { " handoff" } else { "" }) + if self.two_rounds { " two-rounds" } else { "" })
    }
}

// ------------------------------------------------------------------------------------------
// reference
// ------------------------------------------------------------------------------------------

#[derive(Clone, Debug, PartialEq, Eq, Hash)]
enum MainSt {
    Polling(usize),
    Waiting,
    Done,
}

#[derive(Clone, Debug, PartialEq, Eq, Hash)]
struct FS {
    flag: u8,
    /// waker id of the running round: 2 (first / only round) or 3 (second round)
    cur: u8,
    /// 0 = empty, 1 = waker of the earlier (finished) task, 2 = waker of the blocked task
    slot: u8,
    notified: bool,
    credit: bool,
    /// the first poll has run its YieldOnce step
    yielded: bool,
    main: MainSt,
    w: Vec<usize>,
    held: Vec<u8>,
}

pub struct FutRef {
    pub deadlock: bool,
    pub done: bool,
    pub states: u64,
    pub transitions: u64,
    pub witness: Vec<String>,
}

pub fn reference(spec: &FutSpec) -> FutRef {
    let init = FS { flag: 0, cur: 2, slot: if spec.prior { 1 } else { 0 }, notified: false, credit: true, yielded: false, main: MainSt::Polling(0), w: vec![0; spec.wakers.len()], held: vec![if spec.handoff { 2 } else { 0 }; spec.wakers.len()] };
    let mut seen: HashSet<FS> = HashSet::new();
    let mut stack = vec![(init.clone(), vec![])];
    seen.insert(init);
    let mut r = FutRef { deadlock: false, done: false, states: 0, transitions: 0, witness: vec![] };
    while let Some((s, path)) = stack.pop() {
        r.states += 1;
        let mut succ: Vec<(FS, bool, String)> = vec![]; // (state, spurious, label)
        match &s.main {
            MainSt::Polling(i) => {
                let mut n = s.clone();
                match spec.poll[*i] {
                    PStep::Register => {
                        n.slot = s.cur;
                        n.main = if i + 1 == spec.poll.len() { MainSt::Waiting } else { MainSt::Polling(i + 1) };
                    }
                    PStep::Check => {
                        let need = if spec.two_rounds { s.cur - 1 } else { 1 };
                        if s.flag >= need {
                            if spec.two_rounds && s.cur == 2 {
                                // the second block_on: a new task with a notification flag of its own
                                n.cur = 3;
                                n.notified = false;
                                n.credit = true;
                                n.main = MainSt::Polling(0);
                            } else {
                                n.main = MainSt::Done;
                            }
                        } else {
                            n.main = if i + 1 == spec.poll.len() { MainSt::Waiting } else { MainSt::Polling(i + 1) };
                        }
                    }
                    PStep::YieldOnce(_) => {
                        if !s.yielded {
                            n.yielded = true;
                            n.notified = true;
                            n.main = MainSt::Waiting;
                        } else {
                            n.main = if i + 1 == spec.poll.len() { MainSt::Waiting } else { MainSt::Polling(i + 1) };
                        }
                    }
                }
                succ.push((n, false, format!("main {:?}", spec.poll[*i])));
            }
            MainSt::Waiting => {
                if s.notified {
                    let mut n = s.clone();
                    n.notified = false;
                    n.main = MainSt::Polling(0);
                    succ.push((n, false, "main woken".into()));
                }
                if s.credit {
                    let mut n = s.clone();
                    n.credit = false;
                    n.main = MainSt::Polling(0);
                    succ.push((n, true, "main spurious".into()));
                }
            }
            MainSt::Done => {}
        }
        for t in 0..spec.wakers.len() {
            if s.w[t] >= spec.wakers[t].len() {
                continue;
            }
            let mut n = s.clone();
            n.w[t] += 1;
            let st = spec.wakers[t][s.w[t]];
            match st {
                WStep::SetFlag => n.flag = if spec.two_rounds { (n.flag + 1).min(2) } else { 1 },
                WStep::Wake => {
                    if n.slot == n.cur {
                        n.notified = true;
                    }
                    n.slot = 0;
                }
                WStep::WakeByRef => {
                    if n.slot == n.cur {
                        n.notified = true;
                    }
                    if spec.atomic_waker {
                        n.slot = 0;
                    }
                }
                WStep::CloneWaker => {
                    if n.slot != 0 {
                        n.held[t] = n.slot;
                    }
                }
                WStep::WakeHeld => {
                    if n.held[t] == n.cur {
                        n.notified = true;
                    }
                    n.held[t] = 0;
                }
                WStep::DropHeld => n.held[t] = 0,
                WStep::WakeHeldByRef => {
                    if n.held[t] == n.cur {
                        n.notified = true;
                    }
                }
            }
            succ.push((n, false, format!("T{} {:?}", t + 1, st)));
        }
        let progress = succ.iter().any(|(_, sp, _)| !sp);
        if !progress {
            let all_done = s.main == MainSt::Done && (0..spec.wakers.len()).all(|t| s.w[t] >= spec.wakers[t].len());
            if all_done {
                r.done = true;
            } else if s.main != MainSt::Done {
                if !r.deadlock {
                    r.witness = path.clone();
                }
                r.deadlock = true;
            }
        }
        for (n, _, label) in succ {
            r.transitions += 1;
            if seen.insert(n.clone()) {
                let mut p2 = path.clone();
                p2.push(label);
                stack.push((n, p2));
            }
        }
    }
    r
}

// ------------------------------------------------------------------------------------------
// subject
// ------------------------------------------------------------------------------------------

struct Shared {
    flag: loom::sync::atomic::AtomicBool,
    /// two_rounds: the flag as a counter
    count: loom::sync::atomic::AtomicUsize,
    slot: loom::sync::Mutex<Option<Waker>>,
    aw: loom::future::AtomicWaker,
    spec: FutSpec,
    polls: std::sync::atomic::AtomicUsize,
    yielded: std::sync::atomic::AtomicBool,
    /// join handles of waker threads spawned by the first poll (handoff)
    spawned: Mutex<Vec<loom::thread::JoinHandle<()>>>,
}

fn flag_orders(sh: &Shared) -> (std::sync::atomic::Ordering, std::sync::atomic::Ordering) {
    if sh.spec.relaxed {
        (std::sync::atomic::Ordering::Relaxed, std::sync::atomic::Ordering::Relaxed)
    } else {
        (Release, Acquire)
    }
}

struct Fut(Arc<Shared>, usize);

impl Future for Fut {
    type Output = u32;
    fn poll(self: Pin<&mut Self>, cx: &mut Context<'_>) -> Poll<u32> {
        let sh = &self.0;
        let need = self.1;
        let first = sh.polls.fetch_add(1, std::sync::atomic::Ordering::SeqCst) == 0;
        if first && sh.spec.handoff {
            let mut hs = sh.spawned.lock().unwrap_or_else(|e| e.into_inner());
            for script in &sh.spec.wakers {
                let (s2, sc, w) = (sh.clone(), script.clone(), cx.waker().clone());
                hs.push(loom::thread::spawn(move || waker_thread(s2, sc, Some(w))));
            }
        }
        for st in &sh.spec.poll {
            match st {
                PStep::Register => {
                    if sh.spec.atomic_waker {
                        sh.aw.register_by_ref(cx.waker());
                    } else {
                        let old = sh.slot.lock().unwrap().replace(cx.waker().clone());
                        drop(old);
                    }
                }
                PStep::Check => {
                    let up = if sh.spec.two_rounds { sh.count.load(flag_orders(sh).1) >= need } else { sh.flag.load(flag_orders(sh).1) };
                    if up {
                        return Poll::Ready(7);
                    }
                }
                PStep::YieldOnce(by_ref) => {
                    if !sh.yielded.swap(true, std::sync::atomic::Ordering::SeqCst) {
                        if *by_ref {
                            cx.waker().wake_by_ref();
                        } else {
                            cx.waker().clone().wake();
                        }
                        return Poll::Pending;
                    }
                }
            }
        }
        Poll::Pending
    }
}

struct RegisterOnce(Arc<Shared>);

impl Future for RegisterOnce {
    type Output = u32;
    fn poll(self: Pin<&mut Self>, cx: &mut Context<'_>) -> Poll<u32> {
        let sh = &self.0;
        if sh.spec.atomic_waker {
            sh.aw.register_by_ref(cx.waker());
        } else {
            *sh.slot.lock().unwrap() = Some(cx.waker().clone());
        }
        Poll::Ready(0)
    }
}

fn waker_thread(sh: Arc<Shared>, script: Vec<WStep>, mut held: Option<Waker>) {
    for st in script {
        match st {
            WStep::SetFlag => {
                if sh.spec.two_rounds {
                    sh.count.fetch_add(1, std::sync::atomic::Ordering::AcqRel);
                } else {
                    sh.flag.store(true, flag_orders(&sh).0)
                }
            }
            WStep::Wake => {
                if sh.spec.atomic_waker {
                    sh.aw.wake();
                } else {
                    let w = sh.slot.lock().unwrap().take();
                    if let Some(w) = w {
                        w.wake();
                    }
                }
            }
            WStep::WakeByRef => {
                if sh.spec.atomic_waker {
                    if let Some(w) = sh.aw.take_waker() {
                        w.wake_by_ref();
                    }
                } else {
                    let g = sh.slot.lock().unwrap();
                    if let Some(w) = g.as_ref() {
                        w.wake_by_ref();
                    }
                }
            }
            WStep::CloneWaker => {
                if sh.spec.atomic_waker {
                    // AtomicWaker has no way to peek: take, clone, put back through register
                    if let Some(w) = sh.aw.take_waker() {
                        held = Some(w.clone());
                        sh.aw.register(w);
                    }
                } else {
                    let g = sh.slot.lock().unwrap();
                    if let Some(w) = g.as_ref() {
                        held = Some(w.clone());
                    }
                }
            }
            WStep::WakeHeld => {
                if let Some(w) = held.take() {
                    w.wake();
                }
            }
            WStep::DropHeld => {
                held = None;
            }
            WStep::WakeHeldByRef => {
                if let Some(w) = held.as_ref() {
                    w.wake_by_ref();
                }
            }
        }
    }
}

pub struct FutObs {
    pub verdict: Verdict,
    pub message: String,
    pub iterations: u64,
    pub max_polls: usize,
    pub outputs: Vec<u32>,
}

pub fn run_subject(spec: &FutSpec, iter_cap: usize) -> FutObs {
    let obs: Arc<Mutex<(u64, usize, Vec<u32>)>> = Arc::new(Mutex::new((0, 0, vec![])));
    let o2 = obs.clone();
    let spec2 = spec.clone();
    let mut b = loom::model::Builder::new();
    b.log = false;
    let res = std::panic::catch_unwind(std::panic::AssertUnwindSafe(move || {
        b.check(move || {
            {
                let mut o = o2.lock().unwrap_or_else(|e| e.into_inner());
                o.0 += 1;
                if iter_cap != 0 && o.0 as usize > iter_cap {
                    panic!("{}", crate::subject::CAP_TAG);
                }
            }
            let sh = Arc::new(Shared {
                flag: loom::sync::atomic::AtomicBool::new(false),
                count: loom::sync::atomic::AtomicUsize::new(0),
                slot: loom::sync::Mutex::new(None),
                aw: loom::future::AtomicWaker::new(),
                spec: spec2.clone(),
                polls: std::sync::atomic::AtomicUsize::new(0),
                spawned: Mutex::new(vec![]),
                yielded: std::sync::atomic::AtomicBool::new(false),
            });
            if spec2.prior {
                // an earlier task registers and completes at once
                let out0 = loom::future::block_on(RegisterOnce(sh.clone()));
                assert_eq!(out0, 0);
            }
            let mut hs = vec![];
            if !spec2.handoff {
                for script in &spec2.wakers {
                    let (s2, sc) = (sh.clone(), script.clone());
                    hs.push(loom::thread::spawn(move || waker_thread(s2, sc, None)));
                }
            }
            if spec2.two_rounds {
                let out1 = loom::future::block_on(Fut(sh.clone(), 1));
                assert_eq!(out1, 7);
            }
            let out = loom::future::block_on(Fut(sh.clone(), 2));
            hs.extend(sh.spawned.lock().unwrap_or_else(|e| e.into_inner()).drain(..));
            for h in hs {
                h.join().unwrap();
            }
            let polls = sh.polls.load(std::sync::atomic::Ordering::SeqCst);
            let mut o = o2.lock().unwrap_or_else(|e| e.into_inner());
            o.1 = o.1.max(polls);
            if !o.2.contains(&out) {
                o.2.push(out);
            }
        })
    }));
    let (verdict, message) = match res {
        Ok(()) => (Verdict::Ok, String::new()),
        Err(p) => {
            let msg = if let Some(s) = p.downcast_ref::<&str>() {
                s.to_string()
            } else if let Some(s) = p.downcast_ref::<String>() {
                s.clone()
            } else {
                "<non-string panic>".into()
            };
            (classify(&msg), msg)
        }
    };
    let o = obs.lock().unwrap_or_else(|e| e.into_inner());
    FutObs { verdict, message, iterations: o.0, max_polls: o.1, outputs: o.2.clone() }
}

pub fn eval(job: &Job) -> JobResult {
    let mut res = JobResult::default();
    let spec: FutSpec = serde_json::from_value(job.extra["spec"].clone()).expect("fut spec");
    let r = reference(&spec);
    res.states = r.states;
    res.transitions = r.transitions;
    res.nontrivial = r.deadlock || spec.wakers.iter().map(|w| w.len()).sum::<usize>() >= 2;
    let o = run_subject(&spec, job.cfg.iter_cap);
    res.loom_iterations = o.iterations;
    res.verdict = o.verdict.short();
    res.capped = o.verdict == Verdict::Capped;
    let wake_steps: usize = spec.wakers.iter().flatten().filter(|s| matches!(s, WStep::Wake | WStep::WakeByRef | WStep::WakeHeld | WStep::WakeHeldByRef)).count();
    let registers = spec.poll.iter().filter(|s| **s == PStep::Register).count();
    res.sample = json!({"spec": spec.text(), "reference_deadlock": r.deadlock, "reference_witness": r.witness, "loom_verdict": res.verdict, "loom_iterations": o.iterations, "max_polls": o.max_polls});
    if res.capped {
        return res;
    }
    let msg = o.message.lines().next().unwrap_or("").to_string();
    if r.deadlock {
        if o.verdict == Verdict::Deadlock {
            res.traces_validated += 1;
        } else {
            res.violations.push(Viol { kind: "lost_wakeup_not_reported".into(), detail: o.verdict.short(), expected: "Deadlock: the reference can lose the wake-up".into(), observed: msg, witness: json!({"reference_witness": r.witness}) });
        }
        return res;
    }
    if o.verdict != Verdict::Ok {
        let kind = if o.verdict == Verdict::Deadlock { "wakeup_lost" } else { "unexpected_verdict" };
        res.violations.push(Viol { kind: kind.into(), detail: o.verdict.short(), expected: "Ok: a wake follows or overlaps every Pending".into(), observed: msg, witness: json!({}) });
        return res;
    }
    res.traces_validated += o.iterations;
    if o.outputs != vec![7] {
        res.violations.push(Viol { kind: "wrong_output".into(), detail: format!("{:?}", o.outputs), expected: "[7]".into(), observed: String::new(), witness: json!({}) });
    }
    // re-polls only after a wake (each wake step, each contended registration) or the one spurious return
    let yields = spec.poll.iter().filter(|s| matches!(s, PStep::YieldOnce(_))).count();
    let bound = 2 + yields + wake_steps * (1 + registers) + if spec.atomic_waker { wake_steps * registers * 2 } else { 0 };
    if o.max_polls > bound && !spec.two_rounds {
        res.violations.push(Viol { kind: "too_many_polls".into(), detail: format!("{} > {}", o.max_polls, bound), expected: "re-polls only after a wake or the one spurious return".into(), observed: String::new(), witness: json!({}) });
    }
    res
}

// ------------------------------------------------------------------------------------------
// family
// ------------------------------------------------------------------------------------------

pub fn specs(tier: &str) -> Vec<FutSpec> {
    use PStep::*;
    use WStep::*;
    let polls: Vec<Vec<PStep>> = vec![
        vec![Register, Check],
        vec![Check, Register],
        vec![Check, Register, Check],
        vec![Check],
        vec![YieldOnce(true), Register, Check],
        vec![Register, YieldOnce(true), Check],
        vec![YieldOnce(false), Register, Check],
    ];
    let alpha = [SetFlag, Wake, WakeByRef, CloneWaker, WakeHeld, DropHeld];
    let maxlen = if tier == "quick" { 2 } else { 3 };
    let mut scripts: Vec<Vec<WStep>> = vec![];
    let mut cur: Vec<Vec<WStep>> = vec![vec![]];
    for _ in 0..maxlen {
        let mut nxt = vec![];
        for s in &cur {
            for a in alpha {
                // well-formed: WakeHeld/DropHeld only after a CloneWaker that is still held
                let held = s.iter().fold(false, |h, st| match st {
                    CloneWaker => true,
                    WakeHeld | DropHeld => false,
                    _ => h,
                });
                if matches!(a, WakeHeld | DropHeld) && !held {
                    continue;
                }
                let mut s2 = s.clone();
                s2.push(a);
                nxt.push(s2);
            }
        }
        scripts.extend(nxt.iter().cloned());
        cur = nxt;
    }
    // a held clone must be released by the end of the script
    scripts.retain(|s| {
        !s.iter().fold(false, |h, st| match st {
            CloneWaker => true,
            WakeHeld | DropHeld => false,
            _ => h,
        })
    });
    let mut out = vec![];
    for p in &polls {
        for aw in [false, true] {
            // AtomicWaker offers no way to look at the registered waker without taking it, so the
            // clone steps (which the reference treats as atomic) are only used with the plain slot
            let usable = |s: &Vec<WStep>| !aw || !s.contains(&CloneWaker);
            for s1 in scripts.iter().filter(|s| usable(s)) {
                for prior in [false, true] {
                    out.push(FutSpec { poll: p.clone(), atomic_waker: aw, wakers: vec![s1.clone()], prior, relaxed: false, handoff: false, two_rounds: false });
                }
            }
            // two waker threads: short scripts
            for (i, s1) in scripts.iter().enumerate() {
                for s2 in scripts.iter().skip(i) {
                    if !usable(s1) || !usable(s2) {
                        continue;
                    }
                    if s1.len() + s2.len() <= if tier == "quick" { 2 } else { 4 } {
                        out.push(FutSpec { poll: p.clone(), atomic_waker: aw, wakers: vec![s1.clone(), s2.clone()], prior: false, relaxed: false, handoff: false, two_rounds: false });
                    }
                }
            }
        }
    }
    // two rounds: two block_on calls in a row on the same slot; two producers (or one producer
    // twice) that each raise the counter and wake whatever is registered
    {
        let wk = |by_ref: bool| if by_ref { WakeByRef } else { Wake };
        let mut prods: Vec<Vec<Vec<WStep>>> = vec![];
        for a in [false, true] {
            for b in [false, true] {
                prods.push(vec![vec![SetFlag, wk(a)], vec![SetFlag, wk(b)]]);
                prods.push(vec![vec![SetFlag, wk(a), SetFlag, wk(b)]]);
            }
        }
        for p in [vec![Register, Check], vec![Check, Register, Check], vec![Check, Register]] {
            for aw in [false, true] {
                for w in &prods {
                    out.push(FutSpec { poll: p.clone(), atomic_waker: aw, wakers: w.clone(), prior: false, relaxed: false, handoff: false, two_rounds: true });
                }
            }
        }
    }
    // handoff: the waker threads start with a clone of the blocked task's waker (no registration
    // needed), the flag is Release/Acquire or Relaxed
    let halpha = [SetFlag, WakeHeldByRef, WakeHeld, DropHeld];
    let hmax = if tier == "quick" { 3 } else { 4 };
    let mut hscripts: Vec<Vec<WStep>> = vec![];
    let mut cur: Vec<Vec<WStep>> = vec![vec![]];
    for _ in 0..hmax {
        let mut nxt = vec![];
        for s in &cur {
            let held = s.iter().fold(true, |h, st| match st {
                WakeHeld | DropHeld => false,
                _ => h,
            });
            for a in halpha {
                if matches!(a, WakeHeld | DropHeld | WakeHeldByRef) && !held {
                    continue;
                }
                let mut s2 = s.clone();
                s2.push(a);
                nxt.push(s2);
            }
        }
        hscripts.extend(nxt.iter().cloned());
        cur = nxt;
    }
    for p in [vec![Check], vec![Register, Check], vec![Check, Register, Check], vec![YieldOnce(true), Check], vec![YieldOnce(false), Check]] {
        for relaxed in [false, true] {
            for s1 in &hscripts {
                out.push(FutSpec { poll: p.clone(), atomic_waker: false, wakers: vec![s1.clone()], prior: false, relaxed, handoff: true, two_rounds: false });
            }
            for (i, s1) in hscripts.iter().enumerate() {
                for s2 in hscripts.iter().skip(i) {
                    if s1.len() + s2.len() <= if tier == "quick" { 3 } else { 5 } && s1.len().max(s2.len()) <= 3 {
                        out.push(FutSpec { poll: p.clone(), atomic_waker: false, wakers: vec![s1.clone(), s2.clone()], prior: false, relaxed, handoff: true, two_rounds: false });
                    }
                }
            }
        }
    }
    out
}

pub fn jobs(tier: &str) -> Vec<Job> {
    specs(tier)
        .into_iter()
        .enumerate()
        .map(|(i, s)| {
            // placeholder program: the spec text is hashed into the name so ids are distinct
            let mut h = 0u64;
            for b in s.text().bytes() {
                h = h.wrapping_mul(1099511628211).wrapping_add(b as u64);
            }
            let program = crate::ir::Program { name: format!("FUT {}", s.text()), objs: crate::ir::Objs { atomics: vec![h], ..Default::default() }, threads: vec![vec![]] };
            Job { id: format!("C20-{}", i), check: "C20".into(), tier: tier.into(), program, cfg: crate::subject::Cfg { iter_cap: if tier == "quick" { 20_000 } else { 300_000 }, ..Default::default() }, extra: json!({"spec": s}) }
        })
        .collect()
}
