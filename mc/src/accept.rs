//! Conformance replay (code -> model): is a completion history of a real loom iteration
//! accepted by the reference automaton?
//!
//! Black-box linearizability-style search. Every op is a sequence of atomic reference steps
//! (`scm::St::succ`). A history is accepted iff some sequence of reference steps
//!  * respects per-thread order,
//!  * starts op `b` only after every op that returned before `b` was called has finished
//!    (`b` was called after its predecessor in its thread returned; a thread's first op after the
//!    `Spawn` that created it returned),
//!  * finishes only ops that returned in the history, with the same result, and
//!  * finishes all of them.
//! Ops that did not return (blocked thread, iteration ended by a panic) may have taken some of
//! their steps.

use crate::ir::*;
use crate::scm::{Mode, St, Status};
use std::collections::{HashMap, HashSet};

pub type History = Vec<(u8, u8, Res)>;

pub fn fmt_history(h: &History) -> String {
    h.iter().map(|(t, i, r)| format!("{}.{}={}", t, i, r)).collect::<Vec<_>>().join(" ")
}

pub struct Acceptor<'a> {
    p: &'a Program,
    mode: Mode,
    /// completion index of every op that returned
    comp: HashMap<(u8, u8), usize>,
    res: HashMap<(u8, u8), Res>,
    /// for every op: completion index of its predecessor (the op after which it was called)
    pred_comp: HashMap<(u8, u8), Option<usize>>,
    hist: &'a History,
    pub visited: u64,
}

impl<'a> Acceptor<'a> {
    pub fn new(p: &'a Program, hist: &'a History) -> Acceptor<'a> {
        let mut comp = HashMap::new();
        let mut res = HashMap::new();
        for (k, (t, i, r)) in hist.iter().enumerate() {
            comp.insert((*t, *i), k);
            res.insert((*t, *i), *r);
        }
        // who spawns whom
        let mut spawner: HashMap<usize, (u8, u8)> = HashMap::new();
        for (t, ops) in p.threads.iter().enumerate() {
            for (i, op) in ops.iter().enumerate() {
                if let K::Spawn { t: u } = op.k {
                    spawner.insert(u, (t as u8, i as u8));
                }
            }
        }
        let mut pred_comp = HashMap::new();
        for (t, ops) in p.threads.iter().enumerate() {
            for i in 0..ops.len() {
                let pred = if i > 0 { Some((t as u8, (i - 1) as u8)) } else { spawner.get(&t).copied() };
                let pc = match pred {
                    None => Some(0), // main's first op: no constraint
                    Some(k) => comp.get(&k).map(|c| c + 1),
                };
                // None = predecessor never returned: the op cannot have been called
                pred_comp.insert((t as u8, i as u8), if pred.is_none() { Some(0) } else { pc });
            }
        }
        Acceptor { p, mode: Mode { hb: false, any_waiter: true, spurious: true, spur_yield: false }, comp, res, pred_comp, hist, visited: 0 }
    }

    /// number of leading history entries whose ops are finished in `s`
    fn finished_prefix(&self, s: &St) -> usize {
        let mut k = 0;
        for (t, i, _) in self.hist.iter() {
            if s.th[*t as usize].results.len() > *i as usize {
                k += 1;
            } else {
                break;
            }
        }
        k
    }

    fn all_finished(&self, s: &St) -> bool {
        self.hist.iter().all(|(t, i, _)| s.th[*t as usize].results.len() > *i as usize)
    }

    pub fn accepts(&mut self) -> bool {
        let init = St::init(self.p);
        let mut dead: HashSet<St> = HashSet::new();
        self.dfs(init, &mut dead)
    }

    fn dfs(&mut self, s: St, dead: &mut HashSet<St>) -> bool {
        if self.all_finished(&s) {
            return true;
        }
        if dead.contains(&s) {
            return false;
        }
        self.visited += 1;
        if self.visited > 2_000_000 {
            panic!("acceptor search too large");
        }
        let prefix = self.finished_prefix(&s);
        for t in 0..s.th.len() {
            let th = &s.th[t];
            let opk = (t as u8, th.pc as u8);
            let starting = th.status == Status::Ready;
            if th.status == Status::NotStarted || th.status == Status::Done {
                continue;
            }
            if starting && th.pc < self.p.threads[t].len() {
                // ordering: everything that returned before this op was called must be finished
                match self.pred_comp.get(&opk) {
                    Some(Some(need)) => {
                        if prefix < *need {
                            continue;
                        }
                    }
                    _ => continue, // predecessor never returned: never called
                }
            }
            for (n, fin) in s.succ(self.p, t, self.mode) {
                if let Some(r) = fin {
                    match self.res.get(&opk) {
                        Some(hr) if *hr == r => {}
                        _ => continue, // did not return in the history, or a different result
                    }
                    // a finished op must not overtake ops that returned before it was called ...
                    // (covered by the start condition) and must not return *after* an op that was
                    // called after it returned: covered symmetrically by that op's start condition.
                    let _ = self.comp.get(&opk);
                }
                if n.raced || n.user_panic.is_some() {
                    // user panics end the iteration: treat the state as terminal but acceptable
                    if n.user_panic.is_some() && self.all_finished_or_panic(&n) {
                        return true;
                    }
                }
                if self.dfs(n, dead) {
                    return true;
                }
            }
        }
        dead.insert(s);
        false
    }

    fn all_finished_or_panic(&self, s: &St) -> bool {
        self.all_finished(s)
    }
}

/// Convenience: check one history
pub fn accepts(p: &Program, hist: &History) -> (bool, u64) {
    let mut a = Acceptor::new(p, hist);
    let ok = a.accepts();
    (ok, a.visited)
}
