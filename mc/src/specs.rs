//! Which programs each check explores at each tier.

use crate::driver::CheckSpec;
use crate::families as fam;
use crate::ir::{Objs, Program, Res};
use crate::pool::Job;
use crate::subject::Cfg;
use std::time::Duration;

fn jobs(check: &str, tier: &str, progs: Vec<Program>, cfg: &Cfg) -> Vec<Job> {
    progs
        .into_iter()
        .enumerate()
        .map(|(i, p)| Job { id: format!("{}-{}-{}", check, i, p.short_id()), check: check.to_string(), tier: tier.to_string(), program: p, cfg: cfg.clone(), extra: serde_json::Value::Null })
        .collect()
}

fn iter_cap(tier: &str) -> usize {
    if tier == "quick" {
        20_000
    } else {
        300_000
    }
}

fn litmus_selfcheck() -> (String, bool) {
    let (n, fails) = crate::litmus::self_check();
    for f in &fails {
        eprintln!("litmus self-check: {}", f);
    }
    (format!("RC11 litmus table ({} tests)", n), fails.is_empty())
}

pub fn lit_programs(tier: &str) -> (Vec<Program>, String) {
    let mut v = vec![];
    let level;
    if tier == "quick" {
        v.extend(fam::lit(1, 2, 2, 3, false, false));
        v.extend(fam::lit(2, 2, 2, 4, false, false));
        v.extend(fam::lit(1, 3, 1, 3, false, false));
        v.extend(fam::lit(2, 3, 1, 3, false, false));
        v.extend(fam::lit_spawn_stagger(false));
        v.extend(fam::lit_coh3(false));
        v.extend(fam::lit_fence_multi(false));
        v.extend(fam::lit_mp_pub(false));
        v.extend(fam::lit_cas_coh(false));
        v.extend(fam::lit_stale_acq(false));
        level = "LIT: failing compare_exchange as a read (coherence); acquire load of an older store while a newer publication exists; message passing with every publishing / subscribing operation and fence; fence after two loads of flags published by two writers; coherence through a third thread (A: x-op, publish; B: subscribe, 1-2 x-ops; C: 1-2 x-ops); staggered spawns (main accesses/fences between two spawns); 2 threads, <=3 events on 1 location, <=4 events on 2 locations; 3 threads x 1 event on 1-2 locations (reduced orderings) + sentinels".to_string();
    } else {
        v.extend(fam::lit(1, 2, 3, 4, true, true));
        v.extend(fam::lit(2, 2, 2, 4, true, true));
        v.extend(fam::lit(1, 3, 1, 3, true, true));
        v.extend(fam::lit(2, 3, 2, 4, false, false));
        v.extend(fam::lit(1, 2, 3, 5, false, false));
        v.extend(fam::lit_spawn_stagger(true));
        v.extend(fam::lit_coh3(true));
        v.extend(fam::lit_fence_multi(true));
        v.extend(fam::lit_mp_pub(true));
        v.extend(fam::lit_cas_coh(true));
        v.extend(fam::lit_stale_acq(true));
        level = "LIT: failing compare_exchange as a read (coherence); acquire load of an older store while a newer publication exists; message passing with every publishing / subscribing operation and fence; fence after two loads of flags published by two writers (all fence kinds); coherence through a third thread (5 publication idioms, two hops); staggered spawns; 2 threads <=4 events (all orderings, CAS), <=5 events on one location (reduced orderings), 3 threads <=4 events (reduced orderings) + sentinels".to_string();
    }
    v.extend(fam::lit_sentinels());
    for k in ["LIT-LINS", "LIT-TINS"] {
        v.extend(fam::op_ins_family(if tier == "quick" { 2 } else { 8 }, k, false));
    }
    let level = level + "; a relaxed load of an unrelated atomic / an extra thread spawned and joined by main inserted at every position of RMW-free sentinels and 2-thread programs";
    (v, level)
}

pub fn asc_programs(tier: &str) -> (Vec<Program>, String) {
    let mut v = vec![];
    let level;
    if tier == "quick" {
        v.extend(fam::a_sc(1, 2, 2, 4, false));
        v.extend(fam::a_sc(1, 2, 3, 5, true));
        v.extend(fam::a_sc(2, 2, 2, 4, true));
        v.extend(fam::a_sc(1, 3, 1, 3, false));
        v.extend(fam::a_sc_stagger_slots(2, 3, 2, 4, 0));
        v.extend(fam::a_sc_nested(1, 2));
        v.extend(fam::a_sc_nested(2, 1));
        level = "A-sc: 2 threads x <=2 ops (1 location), RMW-only 2 threads <=5 ops, 3 threads x 1 op; staggered joins: 3 children <=4 ops on 2 locations, every join order, main op after the first join".to_string();
    } else {
        v.extend(fam::a_sc(1, 2, 3, 6, false));
        v.extend(fam::a_sc(2, 2, 2, 4, false));
        v.extend(fam::a_sc(2, 2, 3, 6, true));
        v.extend(fam::a_sc(1, 3, 2, 4, false));
        v.extend(fam::a_sc_stagger(2, 3, 2, 5));
        v.extend(fam::a_sc_stagger(1, 3, 2, 4));
        v.extend(fam::a_sc_nested(1, 2));
        v.extend(fam::a_sc_nested(2, 2));
        level = "A-sc: 2 threads x <=3 ops, 2 locations x <=2 ops, RMW-only <=6 ops, 3 threads <=4 ops; staggered joins: 3 children <=5 ops".to_string();
    }
    v.extend(fam::asc_sentinels());
    (v, level)
}

pub fn spec(check: &str, tier: &str) -> Option<CheckSpec> {
    let cfg = Cfg { iter_cap: iter_cap(tier), ..Default::default() };
    let wall = Duration::from_secs(if tier == "quick" { 30 } else { 300 });
    match check {
        "C01" => {
            let (mut progs, mut level) = asc_programs(tier);
            for (pr, l) in [lock_programs(tier), wait_programs(tier), chan_programs(tier)] {
                progs.extend(pr);
                level = format!("{}; {}", level, l);
            }
            progs.extend(fam::spin_lock_family(tier));
            progs.extend(fam::lock_arrival_family(tier));
            progs.extend(fam::mix_programs(tier));
            progs.extend(fam::yield_ins_family(tier));
            for k in ["FINS", "LINS", "MINS", "TINS"] {
                progs.extend(fam::op_ins_family(if tier == "quick" { 2 } else { 8 }, k, true));
            }
            level.push_str("; SPIN+LOCK; MIX (blocks of different primitive kinds); YINS (yield_now inserted at every position of small A-sc / LOCK programs); FINS / LINS / MINS / TINS (a SeqCst fence / a relaxed load of an unrelated atomic / a lock-unlock of an unrelated mutex / an extra thread spawned and joined by main, inserted likewise into A-sc, LOCK, WAIT and CHAN programs: must change nothing)");
            Some(CheckSpec {
                id: "C01",
                level: "model_checking",
                rule: "every program of the family up to the size level (modulo thread/object symmetry); non-trivial = the reference has >= 2 outcomes or a bad verdict",
                assumptions: vec!["SC machine step semantics (DESIGN.md 3.1)", "harness bookkeeping with std types is invisible to loom"],
                wall_cap: wall,
                jobs: jobs("C01", tier, progs, &cfg),
                self_checks: vec![],
                completed_level: level,
                abort_is_violation: true,
            })
        }
        "C02" | "C03" => {
            let (progs, level) = lit_programs(tier);
            let id: &'static str = if check == "C02" { "C02" } else { "C03" };
            Some(CheckSpec {
                id,
                level: "model_checking",
                rule: "every litmus program of the family up to the size level, every ordering combination (modulo symmetry); non-trivial = RC11 allows >= 2 outcomes",
                assumptions: vec!["RC11 axioms with C++20 release sequences (DESIGN.md appendix B)", "SeqCst accesses may behave as acq/rel: RC11 <= L <= RC11-minus"],
                wall_cap: wall,
                jobs: jobs(id, tier, progs, &cfg),
                self_checks: vec![litmus_selfcheck()],
                completed_level: level,
                abort_is_violation: true,
            })
        }
        "C04" => {
            let mut progs = fam::race_a(tier);
            let na = progs.len();
            progs.extend(fam::race_s(tier));
            progs.extend(fam::cell_open_family());
            progs.extend(fam::race_arc_family());
            let mut js = jobs("C04", tier, progs, &cfg);
            // the same verdicts with location capture on (Builder.location)
            let mut cl = cfg.clone();
            cl.location = true;
            let step = if tier == "quick" { 8 } else { 1 };
            let loc_progs: Vec<Program> = fam::race_a_sentinels().into_iter().step_by(step).collect();
            let mut more = jobs("C04", tier, loc_progs, &cl);
            for j in more.iter_mut() {
                j.id = format!("{}-loc", j.id);
            }
            js.extend(more);
            Some(CheckSpec {
                id: "C04",
                level: "model_checking",
                rule: "RACE-a: every LIT program on one flag location with two conflicting cell accesses inserted at every pair of positions (optionally guarded by the preceding load) + sentinels; RACE-s: the same insertion into small lock/channel/notify/condvar/park programs; CELL-open: accesses held open (get / get_mut) across a flag publication or a mutex section against direct, awaited or locked accesses of a second thread; non-trivial = the reference has a racy execution",
                assumptions: vec!["RC11 happens-before for atomics/fences; SC machine vector clocks built from the edges the property names (spawn/join, lock hand-over, message, unpark, notify)"],
                wall_cap: wall,
                jobs: js,
                self_checks: vec![litmus_selfcheck()],
                completed_level: format!("RACE-a {} programs, RACE-s the rest ({})", na, tier),
                abort_is_violation: true,
            })
        }
        "C05" => {
            let (mut progs, l1) = lock_programs(tier);
            let (w, l2) = wait_programs(tier);
            let (c, l3) = chan_programs(tier);
            progs.extend(w);
            progs.extend(c);
            progs.extend(fam::mix_programs(tier));
            progs.extend(fam::spin_lock_family(tier));
            Some(CheckSpec {
                id: "C05",
                level: "model_checking",
                rule: "every program of the LOCK, WAIT and CHAN families up to the size level; non-trivial = the reference reaches a deadlock state",
                assumptions: vec!["SC machine step semantics for blocking primitives (DESIGN.md 3.1, appendix C)"],
                wall_cap: wall,
                jobs: jobs("C05", tier, progs, &cfg),
                self_checks: vec![],
                completed_level: format!("{}; {}; {}", l1, l2, l3),
                abort_is_violation: true,
            })
        }
        "C06" => {
            let pick = |x: Vec<Program>, n: usize| -> Vec<Program> {
                let step = (x.len() / n).max(1);
                x.into_iter().step_by(step).take(n).collect()
            };
            let n = if tier == "quick" { 12 } else { 120 };
            let mut base = vec![];
            base.extend(pick(fam::lock_family(2, 0, 2, 3, 6, true, true), n));
            base.extend(pick(fam::lock_family(0, 1, 2, 3, 6, true, true), n / 2));
            base.extend(pick(fam::wait_family(1, 2, 1, 10, true, true, true), n));
            base.extend(pick(fam::chan_family(2, 1, 2, true), n / 2));
            base.extend(pick(fam::arc_family(1, 2, 1, 3, false, false, false), n));
            base.extend(pick(fam::a_sc(1, 2, 2, 4, false), n));
            base.extend(pick(fam::stat_programs("quick").into_iter().filter(|p| p.objs.tls.contains(&true) || p.objs.lazies.contains(&true)).collect(), n));
            base.extend(fam::lock_sentinels());
            base.extend(fam::held_lock_deadlocks());
            base.extend(fam::chan_payload_family().into_iter().step_by(4));
            let values = [Res::V(0), Res::V(1), Res::V(2), Res::Ok(0), Res::Err(0), Res::Ok(1)];
            let mut progs = vec![];
            for b in &base {
                progs.push(b.clone());
                progs.extend(fam::with_crash_points(b, &values));
            }
            // a panic inside the payload's Drop: whichever thread's decrement reaches zero fails
            for mut b in pick(fam::arc_family(1, 2, 1, 3, false, false, false), n).into_iter().chain(pick(fam::arc_family(2, 1, 1, 3, false, false, false), n)) {
                b.objs.arc_panic = vec![true];
                b.name = "ARC+panic-in-drop".into();
                progs.push(b);
            }
            // failures loom detects on cells: overlapping accesses (also of one thread with itself)
            progs.extend(fam::cell_nested_family());
            progs.extend(fam::cell_open_family().into_iter().step_by(if tier == "quick" { 4 } else { 1 }));
            let nb = base.len();
            let mut js = jobs("C06", tier, progs, &cfg);
            for (i, lp) in fam::limit_crash_programs().into_iter().enumerate() {
                js.push(Job { id: format!("C06-limits-{}", i), check: "C06".into(), tier: tier.into(), program: lp, cfg: cfg.clone(), extra: serde_json::json!({"mode": "limits"}) });
            }
            // a failure found in the very iteration that uses up the run budget still reaches the
            // caller: programs that leak in every schedule (the leak is detected at the end of
            // the iteration) and deadlock sentinels, with max_permutations 2 / 3 checked at every
            // iteration
            {
                let mut failing: Vec<Program> = fam::leak_family().into_iter().filter(|p| p.name.ends_with("-leaked")).collect();
                failing.extend(fam::held_lock_deadlocks().into_iter().take(2));
                for (i, b) in failing.into_iter().enumerate() {
                    // (max_permutations = k examined at every iteration lets k - 1 iterations run)
                    for k in [2usize, 3] {
                        let mut cb = cfg.clone();
                        cb.max_permutations = Some(k);
                        cb.checkpoint_interval = Some(1);
                        js.push(Job { id: format!("C06-budget-{}-{}", i, k), check: "C06".into(), tier: tier.into(), program: b.clone(), cfg: cb, extra: serde_json::json!(null) });
                    }
                }
            }
            for which in 0..crate::statics::CUSTOM_C06 as u64 {
                let program = Program { name: format!("CUSTOM-drop-waits-{}", which), objs: Objs { atomics: vec![which, 6], ..Default::default() }, threads: vec![vec![]] };
                js.push(Job { id: format!("C06-custom-{}", which), check: "C06".into(), tier: tier.into(), program, cfg: cfg.clone(), extra: serde_json::json!({"mode": "custom", "which": which}) });
            }
            Some(CheckSpec {
                id: "C06",
                level: "fault_enumeration",
                rule: "base programs (evenly spaced members of LOCK, WAIT, CHAN, ARC, A-sc + sentinels) x every crash point: a panic inserted at every (thread, position), unconditionally and conditionally on each possible value of the preceding schedule-dependent result (so the failing iteration is first, middle or last); plus the base programs themselves (including ones that deadlock); after every run a sentinel model runs in the same process; hand-written models in which a destructor that runs during the unwind waits for another thread (yield, park, spin lock), run in a child process under a watchdog; non-trivial = the reference can reach the crash point",
                assumptions: vec!["SC machine decides whether a crash point is reachable", "a fresh child process gives the sentinel's reference sequence"],
                wall_cap: wall,
                jobs: js,
                self_checks: vec![],
                completed_level: format!("{} base programs + 3 branch-limit programs x every max_branches up to the need", nb),
                abort_is_violation: true,
            })
        }
        "C07" => {
            let (mut progs, mut level) = lock_programs(tier);
            if tier != "quick" {
                // four contending threads (C07 only: the other users of the LOCK family are already long)
                progs.extend(fam::lock_family(1, 0, 4, 2, 8, true, false));
                progs.extend(fam::lock_family(0, 1, 4, 2, 8, true, false));
                level.push_str("; 4 threads x 2 ops on one mutex / one rwlock");
            }
            progs.extend(fam::race_s_lock(tier));
            level.push_str("; + two cell accesses inserted at every pair of positions into 2-3 thread lock programs (hand-over ordering as a race verdict); hand-written models: a read guard dropped by a panic the model catches leaves the RwLock free");
            Some(CheckSpec {
                id: "C07",
                level: "model_checking",
                rule: "every program of the LOCK family up to the size level; every iteration's completion history replayed on the lock automaton; non-trivial = >= 2 reference outcomes or a deadlock",
                assumptions: vec!["lock automaton of DESIGN.md appendix C; no writer preference; recursive read locks excluded"],
                wall_cap: wall,
                jobs: {
                    let mut js = jobs("C07", tier, progs, &cfg);
                    for which in 0..crate::statics::CUSTOM_C07 as u64 {
                        let program = Program { name: format!("CUSTOM-rwlock-caught-panic-{}", which), objs: Objs { atomics: vec![which, 7], ..Default::default() }, threads: vec![vec![]] };
                        js.push(Job { id: format!("C07-custom-{}", which), check: "C07".into(), tier: tier.into(), program, cfg: cfg.clone(), extra: serde_json::json!({"mode": "custom", "which": which}) });
                    }
                    js
                },
                self_checks: vec![],
                completed_level: level,
                abort_is_violation: true,
            })
        }
        "C08" => {
            let (mut progs, mut level) = wait_programs(tier);
            progs.extend(fam::race_s_wait(tier));
            progs.extend(fam::load_then_wait_family());
            level.push_str("; LOAD-then-wait: a relaxed load with several candidates directly in front of a Notify::wait");
            level.push_str("; + two cell accesses inserted at every pair of positions into wait/notify idioms incl. two notifiers (notifier's writes happen-before the continuation)");
            Some(CheckSpec {
                id: "C08",
                level: "model_checking",
                rule: "every program of the WAIT family up to the size level; every iteration's completion history replayed on the wait/notify automaton; non-trivial = >= 2 reference outcomes or a deadlock",
                assumptions: vec!["wait automaton of DESIGN.md appendix C (FIFO notify_one for outcome equality, any waiter for conformance)"],
                wall_cap: wall,
                jobs: jobs("C08", tier, progs, &cfg),
                self_checks: vec![],
                completed_level: level,
                abort_is_violation: true,
            })
        }
        "C09" => {
            let (mut progs, mut level) = chan_programs(tier);
            progs.extend(fam::race_s_chan(tier));
            level.push_str("; + two cell accesses inserted at every pair of positions into channel programs (send happens-before the receive and later receives)");
            Some(CheckSpec {
                id: "C09",
                level: "model_checking",
                rule: "every program of the CHAN family up to the size level; every iteration's completion history replayed on the FIFO automaton; non-trivial = >= 2 reference outcomes or a bad verdict",
                assumptions: vec!["unbounded FIFO automaton; no disconnection semantics (a sender stays alive)"],
                wall_cap: wall,
                jobs: jobs("C09", tier, progs, &cfg),
                self_checks: vec![],
                completed_level: level,
                abort_is_violation: true,
            })
        }
        "C12" => Some(CheckSpec {
            id: "C12",
            level: "model_checking",
            rule: "every operation sequence up to the depth over the op alphabet (load, store, swap, compare_exchange(_weak), compare_and_swap, fetch_add/sub/and/nand/or/xor/max/min, fetch_update Some/None, with_mut, unsync_load, into_inner) x boundary operands x 12 atomic types x every initial value; every valid ordering combination at depth 1; one job per (type, initial value)",
            assumptions: vec!["compare_exchange_weak does not fail spuriously for a single thread on this host (the std side retries)", "orderings beyond depth 1 are SeqCst: the returned values do not depend on them for one thread"],
            wall_cap: Duration::from_secs(if tier == "quick" { 60 } else { 1800 }),
            jobs: crate::seqcheck::jobs(tier),
            self_checks: vec![],
            completed_level: if tier == "quick" { "depth 2, full boundary operand set (9 values); long sequences of 4..15 modifications + inspecting suffixes".to_string() } else { "depth 3 with 5 boundary operands + depth 2 with 9; long sequences of 4..17 modifications + inspecting suffixes".to_string() },
            abort_is_violation: true,
        }),
        "C13" => {
            // programs with schedule, load and spurious branches and a manageable iteration count
            let mut progs = vec![];
            progs.extend(fam::asc_sentinels());
            let small = ["S24-SB", "S24-MP", "S27", "S-D12", "S-D16", "S-SB-rmw", "S24-2+2W"];
            progs.extend(fam::lit_sentinels().into_iter().filter(|p| tier != "quick" && !p.name.contains("overflow") && !p.name.contains("IRIW") || small.iter().any(|s| p.name.starts_with(s))));
            progs.extend(fam::lock_sentinels());
            let stride = if tier == "quick" { 0 } else { 1 };
            let pick = |v: Vec<Program>, n: usize| -> Vec<Program> {
                let step = (v.len() / n).max(1);
                v.into_iter().step_by(step).collect()
            };
            progs.extend(pick(fam::wait_family(1, 2, 2, 12, true, true, true), if tier == "quick" { 10 } else { 150 }));
            // choices loom makes that are not decisions of the path (which of two condvar waiters
            // notify_one wakes, which pending thread a release wakes first) must be functions of
            // the execution, not of addresses or hash seeds
            progs.extend(pick(fam::wait_family(2, 1, 1, 12, true, false, false), if tier == "quick" { 4 } else { 40 }));
            progs.extend(pick(fam::wait_loop_family(false).into_iter().filter(|p| p.name.starts_with("WAIT-loop-cv-2w")).collect(), if tier == "quick" { 2 } else { 8 }));
            progs.extend(pick(fam::lock_family(0, 1, 3, 2, 6, true, false), if tier == "quick" { 3 } else { 30 }));
            progs.extend(pick(fam::chan_family(2, 2, 2, true), if tier == "quick" { 6 } else { 60 }));
            progs.extend(pick(fam::a_sc(1, 2, 2, 4, false), if tier == "quick" { 10 } else { 80 }));
            progs.extend(pick(fam::stat_programs("quick"), if tier == "quick" { 14 } else { 120 }));
            let mut cfg = cfg.clone();
            cfg.iter_cap = if tier == "quick" { 300 } else { 1200 };
            let mut js = jobs("C13", tier, progs.clone(), &cfg);
            // the same with a preemption bound (the bound is part of what a checkpoint must carry)
            let bounded: Vec<Program> = progs.iter().filter(|p| p.threads.len() >= 3 && p.objs.tls.is_empty()).cloned().collect();
            for (bi, b) in [1usize, 2].iter().enumerate() {
                let mut c2 = cfg.clone();
                c2.preemption_bound = Some(*b);
                let step = if tier == "quick" { 5 } else { 1 };
                let sel: Vec<Program> = bounded.iter().skip(bi).step_by(step).cloned().collect();
                let mut more = jobs("C13", tier, sel, &c2);
                for j in more.iter_mut() {
                    j.id = format!("{}-pb{}", j.id, b);
                }
                js.extend(more);
            }
            for j in js.iter_mut() {
                j.extra = serde_json::json!({"intervals": if tier == "quick" { vec![1, 3] } else { vec![1, 2, 3, 7] }, "stop_stride": stride});
            }
            Some(CheckSpec {
                id: "C13",
                level: "model_checking",
                rule: "programs of the sentinel lists and evenly spaced members of the WAIT/CHAN/A-sc families (schedule, load and spurious branches); two full runs; for every checkpoint interval and every stop point k an interrupted run plus a resumed run; for every distinct outcome a failing variant; non-trivial = >= 3 iterations",
                assumptions: vec!["hook H1 paths and harness histories identify an execution", "quick tier uses about 30 evenly spaced stop points per interval and intervals {1,3}; thorough every stop point (about 120 evenly spaced ones for runs longer than 120 iterations) and {1,2,3,7}"],
                wall_cap: Duration::from_secs(if tier == "quick" { 60 } else { 900 }),
                jobs: js,
                self_checks: vec![],
                completed_level: format!("iteration cap {} per program", cfg.iter_cap),
                abort_is_violation: true,
            })
        }
        "C16" => {
            let progs = c16_programs(tier);
            let mut cfg = cfg.clone();
            cfg.iter_cap = 3000;
            let mut js = vec![];
            for (i, p) in progs.iter().enumerate() {
                js.push(Job { id: format!("C16-iso-{}", i), check: "C16".into(), tier: tier.into(), program: p.clone(), cfg: cfg.clone(), extra: serde_json::json!({"mode": "isolated"}) });
            }
            for (i, p) in progs.iter().enumerate() {
                for (j, q) in progs.iter().enumerate() {
                    js.push(Job { id: format!("C16-pair-{}-{}", i, j), check: "C16".into(), tier: tier.into(), program: p.clone(), cfg: cfg.clone(), extra: serde_json::json!({"mode": "pair", "other": q}) });
                    if i < j {
                        js.push(Job { id: format!("C16-conc-{}-{}", i, j), check: "C16".into(), tier: tier.into(), program: p.clone(), cfg: cfg.clone(), extra: serde_json::json!({"mode": "concurrent", "other": q}) });
                    }
                }
            }
            // the same pairs with a run bound: max_permutations is examined every
            // checkpoint_interval iterations - counted from the start of *this* run
            {
                let mut cb = cfg.clone();
                cb.max_permutations = Some(4);
                cb.checkpoint_interval = Some(3);
                let few: Vec<&Program> = progs.iter().step_by((progs.len() / 5).max(1)).take(5).collect();
                for (i, p) in few.iter().enumerate() {
                    for (j, q) in few.iter().enumerate() {
                        js.push(Job { id: format!("C16-pairb-{}-{}", i, j), check: "C16".into(), tier: tier.into(), program: (*p).clone(), cfg: cb.clone(), extra: serde_json::json!({"mode": "pair", "other": q}) });
                        if i < j {
                            js.push(Job { id: format!("C16-concb-{}-{}", i, j), check: "C16".into(), tier: tier.into(), program: (*p).clone(), cfg: cb.clone(), extra: serde_json::json!({"mode": "concurrent", "other": q}) });
                        }
                    }
                }
            }
            for which in 0..3u64 {
                let program = Program { name: format!("CUSTOM-failing-init-{}", which), objs: Objs { atomics: vec![which], ..Default::default() }, threads: vec![vec![]] };
                js.push(Job { id: format!("C16-custom-{}", which), check: "C16".into(), tier: tier.into(), program, cfg: cfg.clone(), extra: serde_json::json!({"mode": "custom", "which": which}) });
            }
            for (i, p) in fam::prelude_bases(tier).into_iter().enumerate() {
                js.push(Job { id: format!("C16-prelude-{}", i), check: "C16".into(), tier: tier.into(), program: p, cfg: cfg.clone(), extra: serde_json::json!({"mode": "prelude"}) });
            }
            Some(CheckSpec {
                id: "C16",
                level: "model_checking",
                rule: "K diverse programs (atomics, locks, condvar, Notify, park, channels, arcs, leaks, deadlocks): all ordered pairs back to back in one process, all unordered pairs on two OS threads, and every iteration of every program replayed alone in a fresh process from the checkpoint stored before it; the same pairs with max_permutations and a checkpoint interval; prelude invariance: an independent racing prelude in front of a program, the decision sub-tree explored after it must be the same under every order of the prelude; non-trivial = >= 2 iterations",
                assumptions: vec!["a fresh child process is the reference for 'no earlier model ran'", "quick tier replays about 12 evenly spaced iterations per program in isolation, thorough all"],
                wall_cap: Duration::from_secs(if tier == "quick" { 60 } else { 600 }),
                jobs: js,
                self_checks: vec![],
                completed_level: format!("K = {}", progs.len()),
                abort_is_violation: true,
            })
        }
        "C17" => {
            let progs = fam::stat_programs(tier);
            let mut js17 = jobs("C17", tier, progs, &cfg);
            for which in 0..6u64 {
                let program = Program { name: format!("CUSTOM-tls-teardown-{}", which), objs: Objs { atomics: vec![which, 17], ..Default::default() }, threads: vec![vec![]] };
                js17.push(Job { id: format!("C17-custom-{}", which), check: "C17".into(), tier: tier.into(), program, cfg: cfg.clone(), extra: serde_json::json!({"mode": "custom", "which": which}) });
            }
            Some(CheckSpec {
                id: "C17",
                level: "model_checking",
                rule: "every program of the STAT family (1-3 children + main, every sequence of with / nested with / lazy get over 2 thread-local keys and 2 lazy statics, plain and loom-op-in-initialiser/destructor flavours); per iteration: history replay plus init/drop/privacy/AccessError/address counters; non-trivial = >= 2 reference outcomes or >= 3 threads",
                assumptions: vec!["the running loom thread is identified through hook H2 inside initialisers and destructors", "whether a destructor is already visible when join returns is not part of the oracle"],
                wall_cap: wall,
                jobs: js17,
                self_checks: vec![],
                completed_level: format!("STAT {}", tier),
                abort_is_violation: true,
            })
        }
        "C18" => {
            let mut progs = fam::spin_programs(tier);
            progs.extend(fam::spin_lock_family(tier));
            Some(CheckSpec {
                id: "C18",
                level: "model_checking",
                rule: "every program of the SPIN family: 1-2 writer threads over 1-2 locations, one waiter thread with exactly one yield loop (every ordering, optional access before/after the loop) awaiting each stored value or a value nobody stores; the reference enumerates RC11 executions with the loop as one read constrained to the awaited value; non-trivial = the loop can stay unsatisfied or >= 2 outcomes",
                assumptions: vec!["deleting the failed loop iterations from a consistent execution leaves a consistent execution (DESIGN.md C18)", "default max_branches (1000) bounds every iteration"],
                wall_cap: wall,
                jobs: jobs("C18", tier, progs, &cfg),
                self_checks: vec![litmus_selfcheck()],
                completed_level: format!("SPIN {}", tier),
                abort_is_violation: true,
            })
        }
        "C20" => Some(CheckSpec {
            id: "C20",
            level: "model_checking",
            rule: "every poll script (register-check, check-register, check-register-recheck, check only) x registration through a mutex-protected slot or AtomicWaker x every waker-thread script up to the length bound over {set flag, wake, wake_by_ref, clone, wake the clone, drop the clone} with 1-2 waker threads; non-trivial = the reference can lose the wake-up or >= 2 waker steps",
            assumptions: vec!["atomic-step specification of the waker slot and of block_on's notification flag (one spurious credit, spurious returns are not progress)"],
            wall_cap: wall,
            jobs: crate::fut::jobs(tier),
            self_checks: vec![],
            completed_level: if tier == "quick" { "waker scripts <=2 steps, two wakers <=2 steps in total".to_string() } else { "waker scripts <=3 steps, two wakers <=4 steps in total".to_string() },
            abort_is_violation: true,
        }),
        "C19" => {
            let mut progs = vec![];
            let level;
            if tier == "quick" {
                progs.extend(fam::a_sc(1, 2, 2, 4, true));
                progs.extend(fam::a_sc(2, 2, 2, 4, true));
                progs.extend(fam::a_sc(1, 3, 1, 3, true));
                progs.extend(fam::lock_family(2, 0, 2, 3, 6, true, true));
                progs.extend(fam::lock_family(1, 1, 2, 3, 6, true, true));
                progs.extend(fam::lit(1, 2, 2, 3, false, false));
                progs.extend(fam::wait_rounds().into_iter().filter(|p| p.name.contains("notify")));
                progs.extend(fam::wait_loop_family(false).into_iter().filter(|p| p.name.starts_with("WAIT-loop-0")));
                level = "A-sc RMW-only 2-3 threads <=4 ops; LOCK 2 threads <=6 ops; LIT 2 threads <=3 events (Load decisions); Notify rounds and wait loops (Spurious decisions)".to_string();
            } else {
                progs.extend(fam::a_sc(1, 2, 3, 6, true));
                progs.extend(fam::a_sc(2, 2, 2, 4, true));
                progs.extend(fam::a_sc(1, 3, 2, 4, true));
                progs.extend(fam::lock_family(2, 0, 2, 4, 8, true, true));
                progs.extend(fam::lock_family(1, 1, 2, 4, 8, true, true));
                progs.extend(fam::lock_family(1, 0, 3, 3, 7, true, true));
                progs.extend(fam::lit(1, 2, 2, 4, false, false));
                progs.extend(fam::lit(2, 2, 2, 4, false, false));
                progs.extend(fam::wait_rounds());
                progs.extend(fam::wait_loop_family(false));
                level = "A-sc RMW-only 2 threads <=6 ops, 3 threads <=4 ops; LOCK 2 threads <=8 ops, 3 threads <=7 ops; LIT 2 threads <=4 events; WAIT-rounds and WAIT-loop (Load and Spurious decisions)".to_string();
            }
            let mut cfg = cfg.clone();
            cfg.iter_cap = 5000;
            Some(CheckSpec {
                id: "C19",
                level: "model_checking",
                rule: "every program of the level x every placement i<=j of stop_exploring()/explore() in every thread, every placement of skip_branch(), every placement of explore() with expect_explicit_explore; every max_branches in 1..=b+1; max_threads in {k-1,k,k+1}; max_permutations x checkpoint interval grid around N; max_duration in {0, 1h}; non-trivial = >= 2 iterations unrestricted",
                assumptions: vec!["a region is the time between the two calls (the exploring flag is global to the execution)", "max_permutations / max_duration are only examined at checkpoint boundaries, as documented for the checkpoint interval"],
                wall_cap: wall,
                jobs: jobs("C19", tier, progs, &cfg),
                self_checks: vec![],
                completed_level: level,
                abort_is_violation: true,
            })
        }
        "C14" => {
            let (mut progs, mut level) = asc_programs(tier);
            for (i, (pr, l)) in [lit_programs(tier), lock_programs(tier), wait_programs(tier), chan_programs(tier)].into_iter().enumerate() {
                // quick: every third program of the two large families (LIT, WAIT); the oracle is
                // about the shape of the decision tree, which neighbouring programs share
                let step = if tier == "quick" && (i == 0 || i == 2) { 3 } else { 1 };
                progs.extend(pr.into_iter().step_by(step));
                level = format!("{}; {}{}", level, l, if step > 1 { " (every third program)" } else { "" });
            }
            // only loops that terminate in every execution (C14 is about programs whose threads terminate)
            progs.extend(fam::spin_programs(tier).into_iter().filter(|p| !p.text().contains("==77") && !p.name.starts_with("S35")));
            progs.extend(fam::spin_lock_family(tier));
            progs.extend(fam::load_then_wait_family());
            level.push_str("; SPIN and SPIN+LOCK (yield loops, also next to a mutex); LOAD-then-wait (a Load decision directly in front of a Spurious one)");
            // exploration controls: a stop_exploring()/explore() region or a skip_branch() around
            // relaxed loads with several candidates, spurious returns and scheduling decisions
            {
                let mut bases = fam::lit(1, 2, 2, 3, false, false);
                bases.extend(fam::wait_rounds().into_iter().filter(|p| p.name.contains("notify-2")));
                let step = if tier == "quick" { 9 } else { 2 };
                let mut n = 0;
                for b in bases.into_iter().step_by(step) {
                    for t in 1..b.threads.len() {
                        let len = b.threads[t].len();
                        for i in 0..=len {
                            for j in i..=len {
                                let q = fam::insert_op(&b, t, j, crate::ir::K::Explore.into());
                                let mut q = fam::insert_op(&q, t, i, crate::ir::K::StopExploring.into());
                                q.name = format!("{}+region", q.name);
                                progs.push(q);
                                n += 1;
                            }
                            let mut q = fam::insert_op(&b, t, i, crate::ir::K::SkipBranch.into());
                            q.name = format!("{}+skip", q.name);
                            progs.push(q);
                            n += 1;
                        }
                    }
                }
                level.push_str(&format!("; {} LIT / Notify programs with a stop/explore region or a skip_branch at every placement", n));
            }
            // the same oracles with a pre-emption bound (the bound changes which alternatives are
            // queued, not the order in which queued ones are explored): 3-thread programs
            let mut js14 = jobs("C14", tier, progs, &cfg);
            {
                let (asc3, _) = asc_programs(tier);
                let mut three: Vec<Program> = asc3.into_iter().filter(|p| p.threads.len() >= 4).collect();
                three.extend(lock_programs(tier).0.into_iter().filter(|p| p.threads.len() >= 4));
                let step = if tier == "quick" { (three.len() / 150).max(1) } else { 1 };
                let sample: Vec<Program> = three.into_iter().step_by(step).collect();
                for b in [1usize, 2, 3] {
                    let mut cb = cfg.clone();
                    cb.preemption_bound = Some(b);
                    let mut more = jobs("C14", tier, sample.clone(), &cb);
                    for j in more.iter_mut() {
                        j.id = format!("{}-pb{}", j.id, b);
                    }
                    js14.extend(more);
                }
                level.push_str("; 3-thread A-sc / LOCK programs also with preemption_bound 1, 2, 3");
            }
            Some(CheckSpec {
                id: "C14",
                level: "model_checking",
                rule: "every program of the A-sc, LIT, LOCK, WAIT and CHAN families; every iteration's decision path (hook H1) is checked by a streaming depth-first-order oracle; non-trivial = >= 2 iterations",
                assumptions: vec!["the decision path handed out by hook H1 is a faithful copy of loom's path"],
                wall_cap: wall,
                jobs: js14,
                self_checks: vec![],
                completed_level: level,
                abort_is_violation: true,
            })
        }
        "C15" => {
            let mut progs = vec![];
            let level;
            if tier == "quick" {
                progs.extend(fam::a_sc(1, 2, 2, 4, false));
                progs.extend(fam::a_sc(2, 2, 2, 4, true));
                progs.extend(fam::lock_family(1, 0, 2, 3, 6, true, true));
                progs.extend(fam::lock_family(2, 0, 2, 4, 6, false, true));
                progs.extend(fam::asc_sentinels());
                progs.extend(fam::lock_sentinels());
                progs.extend(fam::a_sc_nested(1, 2));
                progs.extend(fam::yield_bases(tier));
                progs.extend(fam::yield_ins_family(tier));
                level = "A-sc 2 threads x <=2 ops; nested spawn (main -> T1 -> T2); LOCK 2 threads <=6 ops; sentinels (3 threads); yield / spin / wait-loop programs (a thread that yielded and runs again, hand-over or late spawn after a yield); YINS (yield_now inserted at every position of small A-sc / LOCK programs); bounds 0..6, #ops and unbounded".to_string();
            } else {
                progs.extend(fam::a_sc(1, 2, 3, 6, false));
                progs.extend(fam::a_sc(2, 2, 2, 4, false));
                progs.extend(fam::a_sc(1, 3, 1, 3, false));
                progs.extend(fam::lock_family(2, 0, 2, 4, 8, true, true));
                progs.extend(fam::lock_family(1, 0, 3, 3, 7, true, true));
                progs.extend(wait_programs("quick").0);
                progs.extend(fam::a_sc_nested(1, 2));
                progs.extend(fam::a_sc_nested(2, 2));
                progs.extend(fam::asc_sentinels());
                progs.extend(fam::lock_sentinels());
                progs.extend(fam::yield_bases(tier));
                progs.extend(fam::yield_ins_family(tier));
                for k in ["FINS", "LINS", "MINS"] {
                    progs.extend(fam::op_ins_family(4, k, true));
                }
                level = "A-sc 2 threads x <=3 ops, 3 threads; LOCK 2-3 threads <=8 ops; WAIT quick level; yield / spin / wait-loop programs; YINS; FINS / LINS / MINS; bounds 0..6 and unbounded".to_string();
            }
            Some(CheckSpec {
                id: "C15",
                level: "model_checking",
                rule: "every program of the level x every preemption bound 0..6 and unbounded; every iteration's preemptions recounted from the raw H1 data; non-trivial = the bound 0 result set is a strict subset of the unbounded one",
                assumptions: vec!["a preemption is a switch away from a thread that is neither disabled nor yielded at that schedule branch"],
                wall_cap: wall,
                jobs: jobs("C15", tier, progs, &cfg),
                self_checks: vec![],
                completed_level: level,
                abort_is_violation: true,
            })
        }
        "C10" => {
            let mut progs = fam::leak_family();
            let (a, l1) = arc_programs(tier, true);
            progs.extend(a);
            progs.extend(fam::chan_payload_family());
            // thread-locals / lazy statics that own loom objects (an Arc each): nothing may be
            // reported as leaked when they are torn down (verdict only: which thread initialises
            // a lazy static first is not promised to be explored exhaustively, see C17)
            let stat_jobs: Vec<Job> = {
                let st: Vec<Program> = fam::stat_programs(tier).into_iter().filter(|p| p.objs.tls.contains(&true) || p.objs.lazies.contains(&true)).collect();
                let step = if tier == "quick" { (st.len() / 150).max(1) } else { 1 };
                let mut js = jobs("C10", tier, st.into_iter().step_by(step).collect(), &cfg);
                for j in js.iter_mut() {
                    j.id = format!("{}-stat", j.id);
                    j.extra = serde_json::json!({"mode": "verdict_only"});
                }
                js
            };
            // exploration controls do not switch the leak check off: programs that leak in every
            // schedule, with a skip_branch() / stop_exploring() somewhere
            for b in fam::leak_family().into_iter().filter(|p| p.name.ends_with("-leaked")) {
                for t in 0..b.threads.len() {
                    let lo = if t == 0 { b.threads[0].iter().rposition(|o| matches!(o.k, crate::ir::K::Spawn { .. })).map(|x| x + 1).unwrap_or(0) } else { 0 };
                    let hi = if t == 0 { b.threads[0].iter().position(|o| matches!(o.k, crate::ir::K::Join { .. })).unwrap_or(b.threads[0].len()) } else { b.threads[t].len() };
                    for i in lo..=hi {
                        for k in [crate::ir::K::SkipBranch, crate::ir::K::StopExploring] {
                            let mut q = fam::insert_op(&b, t, i, k.into());
                            q.name = format!("{}+ctl", q.name);
                            progs.push(q);
                        }
                    }
                }
            }
            // a lazy static that was initialised in the iteration does not switch the leak check
            // off either (and is not itself reported): every LEAK program with a lazy static read
            // by main after the spawns or by a child first thing (plain flavour: the other one
            // yields inside its initialiser, which in front of a racing operation is defect D25)
            for b in fam::leak_family() {
                for flavour in [false] {
                    for t in 0..b.threads.len() {
                        let mut q = b.clone();
                        q.objs.lazies = vec![flavour];
                        let at = if t == 0 { q.threads[0].iter().rposition(|o| matches!(o.k, crate::ir::K::Spawn { .. })).map(|x| x + 1).unwrap_or(0) } else { 0 };
                        let mut q = fam::insert_op(&q, t, at, crate::ir::K::LazyGet { k: 0 }.into());
                        q.name = format!("{}+lazy", q.name);
                        progs.push(q);
                    }
                }
            }
            let (da, dl) = if tier == "quick" { (4, 5) } else { (7, 8) };
            progs.extend(fam::arc_seq_family(da));
            progs.extend(fam::alloc_seq_family(dl));
            let l1 = format!("{}; LEAK programs next to an initialised lazy static; STAT programs whose thread-locals / lazy statics own an Arc; ARC-seq: every main-only sequence of <= {} handle ops with a release followed by a new Arc; ALLOC-seq: every sequence of <= {} alloc/dealloc/Track/Arc ops", l1, da, dl);
            Some(CheckSpec {
                id: "C10",
                level: "model_checking",
                rule: "LEAK family (arc / Track / raw allocation / channel message: released, not released, leaked, released or leaked depending on a CAS race) + ARC family with forget; non-trivial = the reference has a leaking terminated execution or >= 2 outcomes",
                assumptions: vec!["handles / tracked values still held by the harness at the end of the iteration are released by it (only forgotten ones leak)"],
                wall_cap: wall,
                jobs: jobs("C10", tier, progs, &cfg).into_iter().chain(stat_jobs).collect(),
                self_checks: vec![],
                completed_level: format!("LEAK sentinels + {}", l1),
                abort_is_violation: true,
            })
        }
        "C11" => {
            let (mut progs, level) = arc_programs(tier, false);
            let da = if tier == "quick" { 4 } else { 7 };
            progs.extend(fam::arc_seq_family(da));
            let level = format!("{}; ARC-seq: every main-only sequence of <= {} handle ops with a release followed by a new Arc", level, da);
            Some(CheckSpec {
                id: "C11",
                level: "model_checking",
                rule: "every program of the ARC family up to the size level; every iteration's completion history replayed on the reference-count automaton; non-trivial = >= 2 reference outcomes",
                assumptions: vec!["reference-count automaton of DESIGN.md appendix C; strong_count/get_mut results compared at their linearisation point"],
                wall_cap: wall,
                jobs: jobs("C11", tier, progs, &cfg),
                self_checks: vec![],
                completed_level: level,
                abort_is_violation: true,
            })
        }
        _ => None,
    }
}

pub fn c16_programs(tier: &str) -> Vec<Program> {
    let mut v = vec![];
    let pick = |x: Vec<Program>, n: usize| -> Vec<Program> {
        let step = (x.len() / n).max(1);
        x.into_iter().step_by(step).take(n).collect()
    };
    let k = if tier == "quick" { 2 } else { 5 };
    v.extend(pick(fam::asc_sentinels(), k));
    v.extend(pick(fam::lit_sentinels().into_iter().filter(|p| p.name.starts_with("S24-SB") || p.name.starts_with("S27")).collect(), k));
    // programs with SeqCst fences in several threads (the only users of the global seq-cst clock)
    v.extend(pick(fam::lit_sentinels().into_iter().filter(|p| p.name.starts_with("S-RWC") || p.name.starts_with("S-W+RWC") || (p.name.starts_with("S24-MP+F") && p.text().contains("fence.sc"))).collect(), 3));
    v.extend(pick(fam::lock_sentinels(), k));
    v.extend(pick(fam::wait_family(1, 2, 2, 12, true, true, true), k + 1));
    v.extend(pick(fam::chan_family(2, 1, 2, true), k));
    v.extend(pick(fam::arc_family(1, 2, 1, 3, false, true, false), k));
    v.extend(pick(fam::leak_family(), k + 1));
    v.extend(pick(fam::stat_programs("quick").into_iter().filter(|p| p.threads.len() >= 3).collect(), k + 1));
    // per-thread state of the main thread that an iteration can leave behind: an unconsumed park
    // token (main skips its park because the flag is already up, the child unparks anyway)
    {
        use crate::ir::*;
        v.extend(pick(fam::wait_loop_family(false).into_iter().filter(|p| p.name == "WAIT-loop-1-S1").collect(), 2));
        v.push(with_main("C16-park-fast-path", atomics(1), vec![], vec![vec![swap(0, 1, MO::Sc), K::Unpark { t: 0 }.into()]], vec![fadd(0, 0, MO::Sc), K::Park.when(1, Res::V(0)), fadd(0, 0, MO::Sc)], vec![]));
    }
    // exploration controls: a skip_branch() that fires only in some iterations, a region
    {
        use crate::ir::*;
        let o = atomics(2);
        v.push(with_main(
            "CTL-skip+region",
            o.clone(),
            vec![],
            vec![vec![fadd(0, 0, MO::Sc), K::SkipBranch.when(0, Res::V(0)), K::StopExploring.into(), fadd(1, 0, MO::Sc), K::Explore.into()], vec![swap(0, 1, MO::Sc), swap(1, 2, MO::Sc)]],
            vec![],
            vec![],
        ));
        v.push(with_main("CTL-region", o, vec![], vec![vec![K::StopExploring.into(), fadd(1, 0, MO::Sc), K::Explore.into(), fadd(0, 0, MO::Sc)], vec![swap(0, 1, MO::Sc), swap(1, 2, MO::Sc)]], vec![], vec![]));
    }
    // the main thread yields (a spin loop, or a plain yield as its last operation): what it saw
    // before that yield must not restrict its relaxed loads in the next iteration
    {
        use crate::ir::*;
        let o = atomics(2);
        v.push(with_main("C16-main-spins", o.clone(), vec![], vec![vec![st(1, 1, MO::Rlx), st(0, 1, MO::Rel)]], vec![K::Await { a: 0, mo: MO::Acq, want: 1 }.into(), ld(1, MO::Rlx)], vec![]));
        v.push(with_main("C16-main-yields-last", o.clone(), vec![], vec![vec![st(1, 1, MO::Rlx), st(0, 1, MO::Rlx)]], vec![ld(0, MO::Rlx), ld(1, MO::Rlx)], vec![K::Yield.into()]));
        v.push(with_main("C16-main-yields-mid", o, vec![], vec![vec![st(1, 1, MO::Rlx), st(0, 1, MO::Rlx)]], vec![ld(0, MO::Rlx), K::Yield.into(), ld(1, MO::Rlx)], vec![]));
    }
    // one thread uses two thread-local keys, in either order: the order in which its destructors
    // run (part of the iteration signature) must not depend on which model touched the keys first
    {
        use crate::ir::*;
        for flavour in [false, true] {
            let o = Objs { atomics: vec![0], tls: vec![flavour, flavour], ..Default::default() };
            for (a, b) in [(0usize, 1usize), (1, 0)] {
                v.push(with_main("C16-tls-order", o.clone(), vec![], vec![vec![K::TlsWith { k: a }.into(), K::TlsWith { k: b }.into(), fadd(0, 1, MO::Sc)], vec![fadd(0, 1, MO::Sc)]], vec![], vec![]));
            }
            if tier != "quick" || !flavour {
                v.push(with_main("C16-tls-order-main", o.clone(), vec![K::TlsWith { k: 1 }.into(), K::TlsWith { k: 0 }.into()], vec![vec![fadd(0, 1, MO::Sc)], vec![fadd(0, 1, MO::Sc)]], vec![], vec![]));
            }
        }
    }
    v
}

pub fn arc_programs(tier: &str, with_forget: bool) -> (Vec<Program>, String) {
    let mut v = vec![];
    let level;
    if tier == "quick" {
        v.extend(fam::arc_family(1, 2, 2, 4, true, with_forget, false));
        v.extend(fam::arc_family(2, 2, 1, 4, false, with_forget, false));
        v.extend(fam::arc_family(1, 2, 1, 3, false, false, true));
        v.extend(fam::arc_family(3, 1, 1, 4, false, with_forget, false));
        v.extend(fam::arc_cell_children_only(2));
        v.extend(fam::arc_cell_children_only(3));
        level = "ARC: 1 child x <=2 ops + main <=2 (raw ops); 2 children <=4 ops; cell-in-Drop variant, also with 2-3 children as the only owners".to_string();
    } else {
        v.extend(fam::arc_family(1, 3, 2, 5, true, with_forget, false));
        v.extend(fam::arc_family(2, 2, 2, 5, true, with_forget, false));
        v.extend(fam::arc_family(3, 1, 1, 4, false, with_forget, false));
        v.extend(fam::arc_family(2, 2, 1, 4, false, false, true));
        v.extend(fam::arc_cell_children_only(2));
        v.extend(fam::arc_cell_children_only(3));
        level = "ARC: 1 child x <=3 ops + main <=2; 2 children <=5 ops (raw ops); 3 children x 1 op; cell-in-Drop variant".to_string();
    }
    v.extend(fam::arc_reclone_family());
    v.extend(fam::arc_getmut_acq_family());
    v.extend(fam::race_arc_family());
    let level = level + "; ARC-reclone: count 2 -> 1 -> 2 -> 0 (remote drops, relaxed flag, the owner clones again, every release order, third thread); RACE-arc: a non-final drop does not acquire";
    (v, level)
}

pub fn lock_programs(tier: &str) -> (Vec<Program>, String) {
    let mut v = vec![];
    let level;
    if tier == "quick" {
        v.extend(fam::lock_family(2, 0, 2, 4, 8, true, true));
        v.extend(fam::lock_family(1, 1, 2, 3, 6, true, true));
        v.extend(fam::lock_family(1, 0, 3, 3, 7, true, true));
        v.extend(fam::lock_family(0, 1, 2, 4, 8, true, true));
        v.extend(fam::lock_family(0, 1, 3, 2, 6, true, false));
        v.extend(fam::lock_family(2, 0, 3, 2, 6, true, false));
        level = "LOCK: 2 mutexes 3 threads x 2 ops; 2 mutexes 2 threads x <=4 ops; mutex+rwlock 2 threads x <=3 ops; 1 rwlock 2 threads x <=4 ops, 3 threads x 2 ops; 1 mutex 3 threads <=7 ops; + sentinels".to_string();
    } else {
        v.extend(fam::lock_family(2, 0, 2, 5, 10, true, true));
        v.extend(fam::lock_family(1, 1, 2, 4, 8, true, true));
        v.extend(fam::lock_family(2, 0, 3, 4, 8, true, true));
        v.extend(fam::lock_family(0, 1, 3, 3, 8, true, true));
        level = "LOCK: 2 mutexes 2 threads x <=5 ops; mutex+rwlock 2 threads x <=4; 3 threads <=8 ops; + sentinels".to_string();
    }
    v.extend(fam::lock_sentinels());
    v.extend(fam::lock_value_family(tier != "quick"));
    v.extend(fam::lock_nested_family(tier != "quick"));
    let level = level + "; LOCK-value: 2-3 children x 1-2 sections reading and overwriting the protected value, then get_mut / into_inner in main; LOCK-nested: recv/send, Notify wait/notify or a join inside two lock sections of every kind";
    (v, level)
}

pub fn wait_programs(tier: &str) -> (Vec<Program>, String) {
    let mut v = vec![];
    let level;
    if tier == "quick" {
        v.extend(fam::wait_family(2, 1, 1, 12, true, true, true));
        v.extend(fam::wait_family(1, 2, 2, 12, true, true, true));
        v.extend(fam::wait_family(3, 1, 0, 12, true, true, true));
        level = "WAIT: 2 children x 1 block + main <=1 block; 1 child x <=2 blocks + main <=2 blocks; 3 children x 1 block (condvar, Notify, park/unpark)".to_string();
    } else {
        v.extend(fam::wait_family(2, 2, 1, 14, true, true, true));
        v.extend(fam::wait_family(3, 1, 1, 14, true, true, true));
        v.extend(fam::wait_family(1, 3, 2, 14, true, true, true));
        level = "WAIT: 2 children x <=2 blocks + main <=1; 3 children x 1 block + main <=1; 1 child x <=3 blocks + main <=2".to_string();
    }
    v.extend(fam::held_lock_deadlocks());
    v.extend(fam::wait_rounds());
    v.extend(fam::wait_loop_family(tier != "quick"));
    v.extend(fam::dl_enabler_family());
    v.extend(fam::cv_two_waiters_family());
    let level = level + "; CV-two: two single-shot waiters, one or two bare notify_one, release by flag + notify_all (no deadlock: outcome sets compared); WAIT-rounds: one Notify / park token / condvar reused for 2-3 acknowledged rounds; WAIT-loop: `while !flag { wait }` with relaxed flags, 1-2 flags, 1-2 notifier threads, store/notify in either order, condvar with two waiters; DL-enabler: a deadlock reached only if a third thread's independent send / notify / unpark is scheduled early";
    (v, level)
}

pub fn chan_programs(tier: &str) -> (Vec<Program>, String) {
    let mut v = vec![];
    let level;
    if tier == "quick" {
        v.extend(fam::chan_family(1, 2, 3, true));
        v.extend(fam::chan_family(2, 2, 3, true));
        v.extend(fam::chan_family(3, 1, 2, true));
        level = "CHAN: 3 senders x 1 send; 1-2 senders x <=2 sends, receiver <=3 recv/try_recv (+drop); messages with a loom RMW in Drop".to_string();
    } else {
        v.extend(fam::chan_family(1, 3, 4, true));
        v.extend(fam::chan_family(2, 2, 4, true));
        v.extend(fam::chan_family(3, 1, 4, true));
        v.extend(fam::chan_family(3, 2, 3, true));
        level = "CHAN: 1-3 senders x <=3 sends, receiver <=4 recv/try_recv (+drop); messages with a loom RMW in Drop".to_string();
    }
    v.extend(fam::chan_payload_family());
    if tier == "quick" {
        v.extend(fam::chan2_family(3, false));
    } else {
        v.extend(fam::chan2_family(4, false));
        v.extend(fam::chan2_family(3, true));
    }
    let level = level + "; CHAN2: two channels, request/response between two threads, every pair of sequences of <= 3 (4) ops";
    (v, level)
}
