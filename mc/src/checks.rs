//! Per-job evaluation (runs inside a worker process): reference side, subject side, oracle.

use crate::ir::*;
use crate::pool::{Job, JobResult, Viol};
use crate::rc11::{self, Variant};
use crate::scm;
use crate::subject::{self, IterData, IterSink, Verdict};
use serde_json::json;
use std::collections::BTreeMap;

pub const SC_MAX_STATES: u64 = 3_000_000;
pub const RC_MAX_STATES: u64 = 3_000_000;

/// Collects what loom did for one program.
#[derive(Default)]
pub struct Collect {
    /// complete outcomes -> (first iteration index, count)
    pub outcomes: BTreeMap<Outcome, (usize, u64)>,
    pub incomplete: u64,
    pub iters: u64,
    /// optional per-iteration oracle; returns a violation
    pub per_iter: Option<Box<dyn FnMut(&IterData) -> Option<Viol>>>,
    pub iter_viols: Vec<Viol>,
    pub accepted: u64,
    pub max_iter_viols: usize,
}

impl IterSink for Collect {
    fn on_iter(&mut self, it: &IterData) {
        self.iters += 1;
        if it.complete() {
            let e = self.outcomes.entry(it.results.clone()).or_insert((it.index, 0));
            e.1 += 1;
        } else {
            self.incomplete += 1;
        }
        if let Some(f) = self.per_iter.as_mut() {
            match f(it) {
                None => self.accepted += 1,
                Some(v) => {
                    if self.iter_viols.len() < self.max_iter_viols.max(1) && !self.iter_viols.iter().any(|x| x.kind == v.kind && x.detail == v.detail) {
                        self.iter_viols.push(v);
                    }
                }
            }
        }
    }
}

pub fn run_loom(p: &Program, cfg: &subject::Cfg, per_iter: Option<Box<dyn FnMut(&IterData) -> Option<Viol>>>) -> (subject::RunSummary, Collect) {
    let c = Collect { per_iter, max_iter_viols: 8, ..Default::default() };
    subject::run(p, cfg, c)
}

fn outs_json<'a>(it: impl Iterator<Item = &'a Outcome>) -> serde_json::Value {
    json!(it.map(fmt_outcome).collect::<Vec<_>>())
}

pub fn eval(job: &Job) -> JobResult {
    let mut r = match job.check.as_str() {
        "C01" => eval_c01(job),
        "C02" | "C03" => eval_c02_c03(job),
        "C04" => eval_c04(job),
        "C05" => eval_c05(job),
        "C06" => eval_c06(job),
        "C12" => crate::seqcheck::eval(job),
        "C13" => eval_c13(job),
        "C14" => eval_c14(job),
        "C16" => eval_c16(job),
        "C17" => eval_c17(job),
        "C18" => eval_c18(job),
        "C19" => eval_c19(job),
        "C20" => crate::fut::eval(job),
        "C15" => eval_c15(job),
        "C07" if job.extra.get("mode").and_then(|v| v.as_str()) == Some("custom") => eval_c07_custom(job),
        "C07" | "C08" | "C09" | "C10" | "C11" => eval_conf(job),
        other => JobResult { machinery_error: Some(format!("unknown check {}", other)), ..Default::default() },
    };
    r.id = job.id.clone();
    r
}

fn viol(kind: &str, detail: String, expected: String, observed: String, witness: serde_json::Value) -> Viol {
    Viol { kind: kind.to_string(), detail, expected, observed, witness }
}

/// More than 6 stores (7 with the initial value) to one location: outside C02's proviso.
pub fn history_overflow(p: &Program) -> bool {
    let mut cnt = vec![1usize; p.objs.atomics.len()];
    for op in p.threads.iter().flatten() {
        match op.k {
            K::Store { a, .. } | K::Swap { a, .. } | K::FetchAdd { a, .. } | K::Cas { a, .. } => cnt[a] += 1,
            _ => {}
        }
    }
    cnt.iter().any(|&c| c >= 7)
}

// ------------------------------------------------------------------------------------------
// C01: every interleaving outcome is explored
// ------------------------------------------------------------------------------------------

/// Attribution of a missing outcome (for the known-findings list): is it also missing from the
/// reference in which a thread yields after its spurious `Notify::wait` return (defect D20)?
fn d20_attribution(p: &Program, o: &Outcome, restricted: &mut Option<scm::ScResult>) -> &'static str {
    if !p.threads.iter().flatten().any(|x| matches!(x.k, K::NWait { .. } | K::NWaitUntil { .. })) {
        return "unattributed";
    }
    let r = restricted.get_or_insert_with(|| {
        let mut m = scm::Mode::explore(p);
        m.spur_yield = true;
        scm::explore(p, m, SC_MAX_STATES)
    });
    if !r.truncated && !r.done.contains(o) {
        return "spurious-return-yields";
    }
    // the yield after the spurious return can be absorbed by an unrelated step of a third thread
    // (an `unpark` of somebody, which nothing in the program waits for): D20 together with the
    // D25 mechanism. Differential test: without that one operation the outcome is absent from
    // the restricted reference.
    for t in 0..p.threads.len() {
        for i in 0..p.threads[t].len() {
            if !matches!(p.threads[t][i].k, K::Unpark { .. }) || p.threads[t][i].g.is_some() || p.threads[t].iter().any(|x| x.g.as_ref().map(|g| g.idx == i).unwrap_or(false)) {
                continue;
            }
            if p.threads.iter().flatten().any(|x| matches!(x.k, K::Park | K::ParkUntil { .. })) {
                continue;
            }
            let mut q = p.clone();
            q.threads[t].remove(i);
            for x in q.threads[t].iter_mut() {
                if let Some(g) = x.g.as_mut() {
                    if g.idx > i {
                        g.idx -= 1;
                    }
                }
            }
            let mut o2 = o.clone();
            if i < o2[t].len() {
                o2[t].remove(i);
            }
            let mut m = scm::Mode::explore(&q);
            m.spur_yield = true;
            let r2 = scm::explore(&q, m, SC_MAX_STATES);
            let full = scm::explore(&q, scm::Mode::explore(&q), SC_MAX_STATES);
            if !r2.truncated && !full.truncated && full.done.contains(&o2) && !r2.done.contains(&o2) {
                return "spurious-return-yields-absorbed-by-unrelated-unpark";
            }
        }
    }
    "unattributed"
}

/// The program without its `yield_now` calls (None if a yield is guarded or a guard refers to it).
fn strip_yields(p: &Program) -> Option<Program> {
    let mut q = p.clone();
    for t in 0..q.threads.len() {
        let ys: Vec<usize> = (0..q.threads[t].len()).filter(|&i| matches!(q.threads[t][i].k, K::Yield)).collect();
        for &y in ys.iter().rev() {
            if q.threads[t][y].g.is_some() || q.threads[t].iter().any(|o| o.g.as_ref().map(|g| g.idx == y).unwrap_or(false)) {
                return None;
            }
            q.threads[t].remove(y);
            for o in q.threads[t].iter_mut() {
                if let Some(g) = o.g.as_mut() {
                    if g.idx > y {
                        g.idx -= 1;
                    }
                }
            }
        }
    }
    Some(q)
}

fn strip_yield_results(p: &Program, o: &Outcome) -> Outcome {
    o.iter().enumerate().map(|(t, r)| r.iter().enumerate().filter(|(i, _)| !matches!(p.threads[t].get(*i).map(|x| &x.k), Some(K::Yield))).map(|(_, x)| *x).collect()).collect()
}

/// Attribution of an outcome (defect D25, for the known-findings list): the program calls
/// `yield_now`, and loom's unbounded run of the *same program without the yields* does produce
/// the outcome. A yield forces the pending operation of another thread; the unbounded DPOR does
/// not treat that as a dependency, so it never tries the yield at an earlier point.
fn d25_attribution(p: &Program, o: &Outcome, cfg: &crate::subject::Cfg, cache: &mut Option<Option<std::collections::BTreeSet<Outcome>>>) -> &'static str {
    if !p.threads.iter().flatten().any(|x| matches!(x.k, K::Yield)) {
        return "unattributed";
    }
    let set = cache.get_or_insert_with(|| {
        strip_yields(p).and_then(|q| {
            let mut c = cfg.clone();
            c.preemption_bound = None;
            let (sum, col) = run_loom(&q, &c, None);
            if sum.verdict == Verdict::Ok {
                Some(col.outcomes.keys().cloned().collect())
            } else {
                None
            }
        })
    });
    match set {
        Some(s) if s.contains(&strip_yield_results(p, o)) => "explored-once-the-yields-are-removed",
        _ => "unattributed",
    }
}

fn eval_c01(job: &Job) -> JobResult {
    let p = &job.program;
    let mut res = JobResult::default();
    let sc = scm::explore(p, scm::Mode::explore(p), SC_MAX_STATES);
    if sc.truncated {
        res.machinery_error = Some("SC machine truncated".into());
        return res;
    }
    res.states = sc.states;
    res.transitions = sc.transitions;
    let bad = sc.bad_kinds();
    res.ref_outcomes = sc.done.len() as u64;
    res.nontrivial = sc.done.len() >= 2 || !bad.is_empty();
    let (sum, col) = run_loom(p, &job.cfg, None);
    res.loom_iterations = col.iters;
    res.loom_outcomes = col.outcomes.len() as u64;
    res.verdict = sum.verdict.short();
    res.capped = sum.verdict == Verdict::Capped;
    res.sample = json!({"program": p.text(), "reference_outcomes": outs_json(sc.done.iter()), "reference_bad": bad, "loom_outcomes": outs_json(col.outcomes.keys()), "loom_verdict": res.verdict, "loom_iterations": col.iters});
    if res.capped {
        return res;
    }
    if bad.is_empty() {
        if sum.verdict != Verdict::Ok {
            res.violations.push(viol("unexpected_verdict", sum.verdict.short(), "Ok".into(), sum.message.lines().next().unwrap_or("").to_string(), json!({})));
            return res;
        }
        let mut restricted: Option<scm::ScResult> = None;
        let mut strict: Option<Option<std::collections::BTreeSet<Outcome>>> = None;
        for o in &sc.done {
            if col.outcomes.contains_key(o) {
                res.traces_validated += 1;
            } else {
                let mut w = json!({"loom_outcomes": outs_json(col.outcomes.keys())});
                let mut attr = d20_attribution(p, o, &mut restricted);
                if attr == "unattributed" {
                    attr = d25_attribution(p, o, &job.cfg, &mut strict);
                }
                w["attribution"] = json!(attr);
                res.violations.push(viol("missing_outcome", fmt_outcome(o), "some iteration produces this interleaving outcome".into(), format!("{} iterations, {} outcomes", col.iters, col.outcomes.len()), w));
            }
        }
    } else if bad.len() == 1 && bad.contains("Deadlock") {
        if sum.verdict != Verdict::Deadlock {
            res.violations.push(viol("missed_deadlock", sum.verdict.short(), "Deadlock".into(), sum.message.lines().next().unwrap_or("").to_string(), json!({"reference_witness": sc.witness.get("deadlock")})));
        } else {
            res.traces_validated += 1;
        }
    } else {
        res.dont_care = true;
    }
    res
}

// ------------------------------------------------------------------------------------------
// C02 / C03: weak-memory completeness and soundness against RC11
// ------------------------------------------------------------------------------------------

fn eval_c02_c03(job: &Job) -> JobResult {
    let p = &job.program;
    let mut res = JobResult::default();
    if !rc11::supported(p) {
        res.machinery_error = Some("program not supported by the RC11 engine".into());
        return res;
    }
    let rc = rc11::enumerate(p, Variant::Rc11, RC_MAX_STATES);
    let rcm = if p.has_sc_access() { rc11::enumerate(p, Variant::Rc11Minus, RC_MAX_STATES) } else { rc.clone() };
    if rc.truncated || rcm.truncated {
        res.machinery_error = Some("RC11 enumerator truncated".into());
        return res;
    }
    res.states = rc.states + if p.has_sc_access() { rcm.states } else { 0 };
    res.transitions = rc.transitions + if p.has_sc_access() { rcm.transitions } else { 0 };
    res.ref_outcomes = rc.outcomes.len() as u64;
    res.nontrivial = rc.outcomes.len() >= 2;
    if rc.race || rcm.race || rc.stuck || rcm.stuck {
        res.dont_care = true;
        return res;
    }
    let (sum, col) = run_loom(p, &job.cfg, None);
    res.loom_iterations = col.iters;
    res.loom_outcomes = col.outcomes.len() as u64;
    res.verdict = sum.verdict.short();
    res.capped = sum.verdict == Verdict::Capped;
    res.sample = json!({"program": p.text(), "rc11": outs_json(rc.outcomes.iter()), "rc11_minus_extra": outs_json(rcm.outcomes.difference(&rc.outcomes)), "loom_outcomes": outs_json(col.outcomes.keys()), "loom_verdict": res.verdict, "loom_iterations": col.iters});
    if job.check == "C02" {
        if res.capped || history_overflow(p) {
            res.dont_care = true;
            return res;
        }
        if sum.verdict != Verdict::Ok {
            res.violations.push(viol("exploration_aborted", sum.verdict.short(), "Ok".into(), sum.message.lines().next().unwrap_or("").to_string(), json!({})));
            return res;
        }
        // attribution of a missing outcome (used when the known-findings list is generated): is it
        // also missing from RC11 restricted to "an RMW / failing CAS reads the newest store"?
        let mut restricted: Option<rc11::Rc11Result> = None;
        let mut restricted_sc: Option<rc11::Rc11Result> = None;
        let mut restricted_both: Option<rc11::Rc11Result> = None;
        for o in &rc.outcomes {
            if col.outcomes.contains_key(o) {
                res.traces_validated += 1;
            } else {
                let has_rmw = p.threads.iter().flatten().any(|x| matches!(x.k, K::Swap { .. } | K::FetchAdd { .. } | K::Cas { .. }));
                let mut cause = "unattributed";
                if has_rmw {
                    let r = restricted.get_or_insert_with(|| rc11::enumerate(p, Variant::Rc11RmwNewest, RC_MAX_STATES));
                    if !r.truncated && !r.outcomes.contains(o) {
                        cause = "rmw-reads-only-newest-store";
                    }
                }
                // D16: also missing when a SeqCst load cannot read a SeqCst store that has a
                // newer SeqCst store; or only when both restrictions apply
                let has_sc_load = p.threads.iter().flatten().any(|x| matches!(x.k, K::Load { mo: MO::Sc, .. }));
                if cause == "unattributed" && has_sc_load {
                    let r = restricted_sc.get_or_insert_with(|| rc11::enumerate(p, Variant::Rc11ScLoadNewest, RC_MAX_STATES));
                    if !r.truncated && !r.outcomes.contains(o) {
                        cause = "seqcst-load-refuses-older-seqcst-store";
                    } else if has_rmw {
                        let r = restricted_both.get_or_insert_with(|| rc11::enumerate(p, Variant::Rc11RmwAndScNewest, RC_MAX_STATES));
                        if !r.truncated && !r.outcomes.contains(o) {
                            cause = "rmw-newest-and-seqcst-load-rules-together";
                        }
                    }
                }
                res.violations.push(viol("missing_outcome", fmt_outcome(o), "RC11-consistent outcome (po ∪ rf acyclic) is produced by some iteration".into(), format!("{} iterations, {} outcomes", col.iters, col.outcomes.len()), json!({"loom_outcomes": outs_json(col.outcomes.keys()), "attribution": cause})));
            }
        }
    } else {
        // C03: every complete iteration's outcome must be RC11⁻-consistent
        for (o, (first, n)) in &col.outcomes {
            if rcm.outcomes.contains(o) {
                res.traces_validated += *n;
            } else {
                res.violations.push(viol("extra_outcome", fmt_outcome(o), "every iteration is RC11-consistent (SeqCst accesses may be acq/rel)".into(), format!("first in iteration {}, {} iterations", first, n), json!({"rc11_minus": outs_json(rcm.outcomes.iter())})));
            }
        }
    }
    res
}

// ------------------------------------------------------------------------------------------
// C05: deadlocks are reported exactly
// ------------------------------------------------------------------------------------------

fn eval_c05(job: &Job) -> JobResult {
    let p = &job.program;
    let mut res = JobResult::default();
    let sc = scm::explore(p, scm::Mode::explore(p), SC_MAX_STATES);
    if sc.truncated {
        res.machinery_error = Some("SC machine truncated".into());
        return res;
    }
    res.states = sc.states;
    res.transitions = sc.transitions;
    let bad = sc.bad_kinds();
    res.ref_outcomes = sc.done.len() as u64;
    res.nontrivial = !sc.deadlocks.is_empty();
    let (sum, col) = run_loom(p, &job.cfg, None);
    res.loom_iterations = col.iters;
    res.loom_outcomes = col.outcomes.len() as u64;
    res.verdict = sum.verdict.short();
    res.capped = sum.verdict == Verdict::Capped;
    res.sample = json!({"program": p.text(), "reference_deadlock_states": sc.deadlocks.len(), "reference_bad": bad, "loom_verdict": res.verdict, "loom_iterations": col.iters});
    if res.capped {
        return res;
    }
    let other_bad = bad.iter().any(|k| k != "Deadlock");
    if other_bad {
        res.dont_care = true;
        return res;
    }
    let msg = sum.message.lines().next().unwrap_or("").to_string();
    if sc.deadlocks.is_empty() {
        if sum.verdict != Verdict::Ok {
            let kind = if sum.verdict == Verdict::Deadlock { "false_deadlock" } else { "unexpected_verdict" };
            res.violations.push(viol(kind, sum.verdict.short(), "Ok".into(), msg, json!({})));
        } else {
            res.traces_validated += 1;
        }
    } else if sum.verdict != Verdict::Deadlock {
        res.violations.push(viol("missed_deadlock", sum.verdict.short(), "Deadlock".into(), msg, json!({"reference_witness": sc.witness.get("deadlock")})));
    } else {
        res.traces_validated += 1;
    }
    res
}

// ------------------------------------------------------------------------------------------
// Conformance checks (C07 C08 C09 C11 C04-sync): every iteration's history is accepted by the
// reference automaton, the outcome sets are equal, and the verdicts agree.
// ------------------------------------------------------------------------------------------

pub fn history_oracle(p: &Program) -> Box<dyn FnMut(&IterData) -> Option<Viol>> {
    let p = p.clone();
    let mut ok_cache: std::collections::HashSet<crate::accept::History> = Default::default();
    let mut bad_cache: std::collections::HashSet<crate::accept::History> = Default::default();
    Box::new(move |it: &IterData| {
        if ok_cache.contains(&it.history) {
            return None;
        }
        let mk = |h: &crate::accept::History, idx: usize| viol("history_rejected", crate::accept::fmt_history(h), "the completion history is a behaviour of the reference automaton".into(), format!("iteration {}", idx), json!({}));
        if bad_cache.contains(&it.history) {
            return Some(mk(&it.history, it.index));
        }
        let (ok, _) = crate::accept::accepts(&p, &it.history);
        if ok {
            ok_cache.insert(it.history.clone());
            None
        } else {
            bad_cache.insert(it.history.clone());
            Some(mk(&it.history, it.index))
        }
    })
}

fn eval_conf(job: &Job) -> JobResult {
    let p = &job.program;
    let mut res = JobResult::default();
    let sc = scm::explore(p, scm::Mode::explore(p), SC_MAX_STATES);
    if sc.truncated {
        res.machinery_error = Some("SC machine truncated".into());
        return res;
    }
    res.states = sc.states;
    res.transitions = sc.transitions;
    let bad = sc.bad_kinds();
    res.ref_outcomes = sc.done.len() as u64;
    res.nontrivial = sc.done.len() >= 2 || !bad.is_empty();
    let mut c = Collect { per_iter: Some(history_oracle(p)), max_iter_viols: 64, ..Default::default() };
    c.iters = 0;
    let (sum, col) = subject::run(p, &job.cfg, c);
    res.loom_iterations = col.iters;
    res.loom_outcomes = col.outcomes.len() as u64;
    res.verdict = sum.verdict.short();
    res.capped = sum.verdict == Verdict::Capped;
    res.traces_validated = col.accepted;
    res.sample = json!({"program": p.text(), "reference_outcomes": outs_json(sc.done.iter()), "reference_bad": bad, "loom_outcomes": outs_json(col.outcomes.keys()), "loom_verdict": res.verdict, "loom_iterations": col.iters, "histories_accepted": col.accepted});
    // per-iteration: report the smallest rejected history (stable under reordering of iterations)
    if let Some(v) = col.iter_viols.iter().min_by(|a, b| a.detail.cmp(&b.detail)) {
        let mut v = v.clone();
        v.witness = json!({"rejected_histories": col.iter_viols.iter().map(|x| x.detail.clone()).collect::<Vec<_>>()});
        res.violations.push(v);
    }
    if res.capped {
        return res;
    }
    let msg = sum.message.lines().next().unwrap_or("").to_string();
    if bad.is_empty() {
        if sum.verdict != Verdict::Ok {
            let kind = match sum.verdict {
                Verdict::Deadlock => "false_deadlock",
                Verdict::Race => "false_race",
                Verdict::Leak(_) => "false_leak",
                _ => "unexpected_verdict",
            };
            res.violations.push(viol(kind, sum.verdict.short(), "Ok".into(), msg, json!({})));
            return res;
        }
        if job.extra.get("mode").and_then(|v| v.as_str()) == Some("verdict_only") {
            res.traces_validated += col.iters;
            return res;
        }
        // attribution (for the known-findings list): is the outcome also missing from the
        // reference in which a thread yields after its spurious `Notify::wait` return (D20)?
        let mut restricted: Option<scm::ScResult> = None;
        for o in &sc.done {
            if col.outcomes.contains_key(o) {
                res.traces_validated += 1;
            } else {
                let mut w = json!({"loom_outcomes": outs_json(col.outcomes.keys())});
                if p.threads.iter().flatten().any(|x| matches!(x.k, K::NWait { .. } | K::NWaitUntil { .. })) {
                    w["attribution"] = json!(d20_attribution(p, o, &mut restricted));
                }
                res.violations.push(viol("missing_outcome", fmt_outcome(o), "L(P) = R(P)".into(), format!("{} iterations, {} outcomes", col.iters, col.outcomes.len()), w));
            }
        }
        for o in col.outcomes.keys() {
            if !sc.done.contains(o) {
                res.violations.push(viol("extra_outcome", fmt_outcome(o), "L(P) = R(P)".into(), format!("first in iteration {}", col.outcomes[o].0), json!({"reference_outcomes": outs_json(sc.done.iter())})));
            }
        }
    } else {
        let v = sum.verdict.short();
        if bad.contains(&v) {
            res.traces_validated += 1;
        } else {
            let kind = if bad.len() == 1 {
                match bad.iter().next().unwrap().as_str() {
                    "Deadlock" => "missed_deadlock",
                    "Race" => "missed_race",
                    k if k.starts_with("Leak") => "missed_leak",
                    _ => "wrong_verdict",
                }
            } else {
                "wrong_verdict"
            };
            res.violations.push(viol(kind, v, format!("{:?}", bad), msg, json!({"reference_witness": sc.witness})));
        }
    }
    res
}

// ------------------------------------------------------------------------------------------
// C04: data races are reported exactly
// ------------------------------------------------------------------------------------------

fn eval_c04(job: &Job) -> JobResult {
    let p = &job.program;
    if p.threads.iter().flatten().any(|o| matches!(o.k, K::CellBegin { .. })) {
        // accesses that stay open across other operations: several kinds of failure are
        // possible (race, overlap); verdict membership + outcome equality
        return eval_conf(job);
    }
    let mut res = JobResult::default();
    let expected_race: bool;
    let mut other_bad = false;
    let mut refinfo = json!({});
    if rc11::supported(p) {
        let rc = rc11::enumerate(p, Variant::Rc11, RC_MAX_STATES);
        let rcm = if p.has_sc_access() { rc11::enumerate(p, Variant::Rc11Minus, RC_MAX_STATES) } else { rc.clone() };
        if rc.truncated || rcm.truncated {
            res.machinery_error = Some("RC11 enumerator truncated".into());
            return res;
        }
        res.states = rc.states;
        res.transitions = rc.transitions;
        res.ref_outcomes = rc.outcomes.len() as u64;
        if rc.race != rcm.race || rc.stuck {
            res.dont_care = true;
            return res;
        }
        expected_race = rc.race;
        refinfo = json!({"engine": "rc11", "consistent_executions": rc.consistent, "racy_outcomes": outs_json(rc.racy_outcomes.iter())});
    } else {
        let sc = scm::explore(p, scm::Mode { hb: true, any_waiter: false, spurious: true, spur_yield: false }, SC_MAX_STATES);
        if sc.truncated {
            res.machinery_error = Some("SC machine truncated".into());
            return res;
        }
        res.states = sc.states;
        res.transitions = sc.transitions;
        res.ref_outcomes = sc.done.len() as u64;
        expected_race = sc.race;
        other_bad = sc.bad_kinds().iter().any(|k| k != "Race");
        refinfo = json!({"engine": "sc+hb", "bad": sc.bad_kinds(), "race_witness": sc.witness.get("race")});
    }
    res.nontrivial = expected_race;
    let (sum, col) = run_loom(p, &job.cfg, None);
    res.loom_iterations = col.iters;
    res.verdict = sum.verdict.short();
    res.capped = sum.verdict == Verdict::Capped;
    res.sample = json!({"program": p.text(), "reference": refinfo, "expected_race": expected_race, "loom_verdict": res.verdict, "loom_iterations": col.iters});
    if res.capped {
        return res;
    }
    let msg = sum.message.lines().next().unwrap_or("").to_string();
    if other_bad {
        // several kinds of bad executions: loom may report any of them
        res.dont_care = true;
        return res;
    }
    if expected_race {
        if sum.verdict == Verdict::Race {
            res.traces_validated += 1;
        } else {
            // attribution (for the known-findings list): does the race also disappear from the
            // reference when the SeqCst fences are totally ordered inside happens-before?
            let mut refinfo = refinfo;
            if rc11::supported(p) && p.threads.iter().flatten().filter(|o| matches!(o.k, K::Fence { mo: MO::Sc })).count() >= 2 {
                let r = rc11::enumerate(p, Variant::Rc11ScFenceHb, RC_MAX_STATES);
                refinfo["attribution"] = json!(if !r.truncated && !r.race { "seqcst-fences-as-happens-before" } else { "unattributed" });
            }
            res.violations.push(viol("missed_race", sum.verdict.short(), "Race".into(), msg, refinfo));
        }
    } else if sum.verdict == Verdict::Ok {
        res.traces_validated += 1;
    } else {
        let kind = if sum.verdict == Verdict::Race { "false_race" } else { "unexpected_verdict" };
        res.violations.push(viol(kind, sum.verdict.short(), "Ok".into(), msg, refinfo));
    }
    res
}

// ------------------------------------------------------------------------------------------
// C14: termination, no repeated execution, depth-first order (streaming over hook H1)
// ------------------------------------------------------------------------------------------

use loom::verif::{Branch, BranchKind};

fn bk(b: &Branch) -> (u8, u8) {
    (
        match b.kind {
            BranchKind::Schedule => 0,
            BranchKind::Load => 1,
            BranchKind::Spurious => 2,
        },
        b.chosen,
    )
}

pub fn fmt_path(p: &[Branch]) -> String {
    p.iter()
        .map(|b| match b.kind {
            BranchKind::Schedule => format!("S{}", if b.chosen == 255 { "-".to_string() } else { b.chosen.to_string() }),
            BranchKind::Load => format!("L{}", b.chosen),
            BranchKind::Spurious => format!("P{}", b.chosen),
        })
        .collect::<Vec<_>>()
        .join(" ")
}

/// Streaming depth-first-order oracle: O(depth) memory.
#[derive(Default)]
pub struct DfsOracle {
    prev: Vec<(u8, u8)>,
    /// the previous iteration's decisions with loom's bookkeeping (thread states, candidates)
    prev_full: Vec<Branch>,
    /// alternatives already taken at each depth of the current prefix
    taken: Vec<Vec<(u8, u8)>>,
    pub paths: u64,
    pub max_depth: usize,
}

impl DfsOracle {
    /// returns a violation description
    pub fn feed(&mut self, path: &[Branch]) -> Option<(String, String)> {
        let cur: Vec<(u8, u8)> = path.iter().map(bk).collect();
        self.paths += 1;
        self.max_depth = self.max_depth.max(cur.len());
        // every scheduling decision has exactly one thread marked as running, the chosen one
        for (d, b) in path.iter().enumerate() {
            if b.kind == BranchKind::Schedule && b.chosen != 255 {
                let active: Vec<usize> = (0..b.threads.len()).filter(|&t| b.threads[t] == loom::verif::thread_state::ACTIVE).collect();
                if active != vec![b.chosen as usize] {
                    return Some(("two_alternatives_at_once".to_string(), format!("depth {}: threads marked active {:?}, thread {} runs", d, active, b.chosen)));
                }
            }
        }
        if self.paths == 1 {
            self.taken = cur.iter().map(|c| vec![*c]).collect();
            self.prev = cur;
            self.prev_full = path.to_vec();
            return None;
        }
        let k = match (0..cur.len().min(self.prev.len())).find(|&i| cur[i] != self.prev[i]) {
            Some(k) => k,
            None => {
                let kind = if cur.len() == self.prev.len() { "repeated_path" } else { "prefix_path" };
                return Some((kind.to_string(), format!("iteration {} follows {} decisions already followed by iteration {}", self.paths, cur.len().min(self.prev.len()), self.paths - 1)));
            }
        };
        if cur[k].0 != self.prev[k].0 {
            return Some(("nondeterministic_branch_kind".to_string(), format!("depth {}: kind {} after kind {}", k, cur[k].0, self.prev[k].0)));
        }
        if self.taken[k].contains(&cur[k]) {
            return Some(("not_depth_first".to_string(), format!("depth {}: alternative {:?} was already explored under this prefix", k, cur[k])));
        }
        // depth-first: the decisions below depth k are given up now, so none of them may still
        // have an alternative queued for exploration
        for d in k + 1..self.prev_full.len() {
            let b = &self.prev_full[d];
            if !b.exploring {
                continue;
            }
            let left = match b.kind {
                BranchKind::Schedule => (0..b.threads.len()).any(|t| b.threads[t] == loom::verif::thread_state::PENDING || (b.threads[t] == loom::verif::thread_state::ACTIVE && t != b.chosen as usize)),
                BranchKind::Load => (b.chosen as usize) + 1 < b.len as usize,
                BranchKind::Spurious => b.chosen == 0,
            };
            if left {
                return Some(("alternative_abandoned".to_string(), format!("iteration {} backs up to depth {} although the decision at depth {} ({:?}) still has an alternative queued", self.paths, k, d, b.kind)));
            }
        }
        self.taken.truncate(k + 1);
        self.taken[k].push(cur[k]);
        for c in &cur[k + 1..] {
            self.taken.push(vec![*c]);
        }
        self.prev = cur;
        self.prev_full = path.to_vec();
        None
    }
}

fn eval_c14(job: &Job) -> JobResult {
    let p = &job.program;
    let mut res = JobResult::default();
    let oracle = std::rc::Rc::new(std::cell::RefCell::new(DfsOracle::default()));
    let o2 = oracle.clone();
    let per_iter: Box<dyn FnMut(&IterData) -> Option<Viol>> = Box::new(move |it: &IterData| {
        let r = o2.borrow_mut().feed(&it.path);
        r.map(|(kind, what)| viol(&kind, "path".into(), "each iteration follows a fresh decision sequence, in depth-first order".into(), format!("{} (iteration {}: {})", what, it.index, fmt_path(&it.path)), json!({})))
    });
    let (sum, col) = run_loom(p, &job.cfg, Some(per_iter));
    res.loom_iterations = col.iters;
    res.verdict = sum.verdict.short();
    res.capped = sum.verdict == Verdict::Capped;
    let o = oracle.borrow();
    // the reference side here is the trie of decision paths itself: one state per distinct
    // prefix extension, one transition per decision
    res.states = o.paths;
    res.transitions = col.iters * o.max_depth as u64;
    res.traces_validated = col.accepted;
    res.nontrivial = col.iters >= 2;
    res.ref_outcomes = o.paths;
    res.sample = json!({"program": p.text(), "iterations": col.iters, "distinct_paths": o.paths, "max_depth": o.max_depth, "loom_verdict": res.verdict});
    for v in &col.iter_viols {
        res.violations.push(v.clone());
    }
    if !res.capped && !matches!(sum.verdict, Verdict::Ok | Verdict::Deadlock | Verdict::Race | Verdict::Leak(_)) {
        res.violations.push(viol("unexpected_verdict", sum.verdict.short(), "model returns (or reports a deadlock/race/leak of the program)".into(), sum.message.lines().next().unwrap_or("").to_string(), json!({})));
    }
    res
}

// ------------------------------------------------------------------------------------------
// C15: preemption bound
// ------------------------------------------------------------------------------------------

/// Count preemptions of one iteration from the raw H1 data: a switch away from the thread chosen at
/// the previous schedule branch while that thread is still enabled (not Disabled, not Yield).
/// Also checks loom's own `preemptions` field (pre-emptions before each branch).
pub fn count_preemptions(path: &[Branch]) -> (u32, Option<String>) {
    // the main thread is the one running before the first schedule branch
    let mut prev: Option<u8> = Some(0);
    let mut count = 0u32;
    let mut mismatch = None;
    for (i, b) in path.iter().enumerate() {
        if b.kind != BranchKind::Schedule {
            continue;
        }
        if b.preemptions as u32 != count && mismatch.is_none() {
            mismatch = Some(format!("branch {}: loom's preemptions field is {} but {} switches away from an enabled thread precede it", i, b.preemptions, count));
        }
        if let Some(pt) = prev {
            let st = b.threads[pt as usize];
            let enabled = st != loom::verif::thread_state::DISABLED && st != loom::verif::thread_state::YIELD;
            if b.chosen != 255 && b.chosen != pt && enabled {
                count += 1;
            }
        }
        if b.chosen != 255 {
            prev = Some(b.chosen);
        }
    }
    (count, mismatch)
}

/// Pre-emptions visible in the completion history alone, replayed on the SC machine: a switch
/// from t to u between two consecutive completions counts iff t's next op exists and is enabled
/// in the reference state at that point. Uses nothing of loom's bookkeeping. A lower bound on
/// the real number (switches that complete no op are invisible). `None` if the history cannot
/// be replayed in completion order (multi-step ops).
pub fn history_preemptions(p: &Program, hist: &crate::accept::History) -> Option<u32> {
    let mode = scm::Mode { hb: false, any_waiter: true, spurious: true, spur_yield: false };
    let mut s = scm::St::init(p);
    let mut count = 0u32;
    // a thread that has yielded (explicitly or inside a spin / wait op) and has not been switched
    // away from since: the next switch away from it is the yield taking effect, not a pre-emption
    // (loom keeps a yielded thread running when nobody else can run)
    let mut yield_pending = vec![false; p.threads.len()];
    for (k, (t, i, r)) in hist.iter().enumerate() {
        let t = *t as usize;
        if s.th[t].pc != *i as usize {
            return None;
        }
        if *r != Res::Skip && matches!(p.threads[t][*i as usize].k, K::Yield | K::Await { .. } | K::AwaitSpun { .. } | K::Await2 { .. } | K::NWait { .. } | K::NWaitUntil { .. }) {
            yield_pending[t] = true;
        }
        let next = s.succ(p, t, mode).into_iter().find(|(_, fin)| *fin == Some(*r));
        match next {
            Some((n, _)) => s = n,
            None => return None,
        }
        if let Some((u, _, _)) = hist.get(k + 1) {
            if *u as usize != t {
                // could t have continued?
                let more = s.th[t].pc < p.threads[t].len();
                // ops that can yield or block *inside* the call (before completing) make the
                // switch voluntary although nothing completed: a `Notify::wait` (spurious return,
                // then `yield_now`), spin loops, condvar waits (enqueue, then block) and the
                // wait-in-a-loop ops. Not countable from the history.
                let inside = more
                    && matches!(
                        p.threads[t][s.th[t].pc].k,
                        K::NWait { .. } | K::NWaitUntil { .. } | K::ParkUntil { .. } | K::CvWaitUntil { .. } | K::Wait { .. } | K::Yield | K::Await { .. } | K::AwaitSpun { .. } | K::Await2 { .. }
                    );
                if more && !inside && !yield_pending[t] {
                    let enabled = s.succ(p, t, mode).iter().any(|(n, _)| !n.via_spurious);
                    if enabled {
                        count += 1;
                    }
                }
                yield_pending[t] = false;
            }
        }
    }
    Some(count)
}

fn eval_c15(job: &Job) -> JobResult {
    let p = &job.program;
    let mut res = JobResult::default();
    let nops = p.nops();
    let mut bounds: Vec<Option<usize>> = vec![Some(0), Some(1), Some(2), Some(3), Some(4), Some(5), Some(6)];
    if nops > 6 {
        bounds.push(Some(nops));
    }
    bounds.push(None);
    let mut sets: Vec<std::collections::BTreeSet<Outcome>> = vec![];
    let mut verdicts = vec![];
    let mut sample_rows = vec![];
    for b in &bounds {
        let mut cfg = job.cfg.clone();
        cfg.preemption_bound = *b;
        let bound = *b;
        let prog = p.clone();
        let per_iter: Box<dyn FnMut(&IterData) -> Option<Viol>> = Box::new(move |it: &IterData| {
            let (n, mismatch) = count_preemptions(&it.path);
            // independent count from the completion history (no loom bookkeeping involved)
            if it.complete() {
                if let Some(h) = history_preemptions(&prog, &it.history) {
                    if h > n {
                        return Some(viol("recount_inconsistent", format!("bound={:?}", bound), "the history shows no more pre-emptions than the schedule branches".into(), format!("iteration {}: history {} > branches {}", it.index, h, n), json!({"path": fmt_path(&it.path), "history": crate::accept::fmt_history(&it.history)})));
                    }
                    if let Some(bd) = bound {
                        if h as usize > bd {
                            return Some(viol("bound_exceeded_by_history", format!("bound={} preemptions={}", bd, h), format!("at most {} switches away from a runnable thread", bd), format!("iteration {} has {} visible in its completion history", it.index, h), json!({"history": crate::accept::fmt_history(&it.history)})));
                        }
                    }
                }
            }
            // loom's own counter also counts "a different thread than the default one was picked
            // after the running thread blocked"; it may exceed the recount (conservative), which
            // the property allows. Only the recount is compared with the bound.
            let _ = mismatch;
            if let Some(bd) = bound {
                if n as usize > bd {
                    return Some(viol("bound_exceeded", format!("bound={} preemptions={}", bd, n), format!("at most {} switches away from a runnable thread", bd), format!("iteration {} has {}", it.index, n), json!({"path": fmt_path(&it.path)})));
                }
            }
            None
        });
        let (sum, col) = run_loom(p, &cfg, Some(per_iter));
        res.loom_iterations += col.iters;
        res.traces_validated += col.accepted;
        if sum.verdict == Verdict::Capped {
            res.capped = true;
        }
        for v in &col.iter_viols {
            res.violations.push(v.clone());
        }
        sample_rows.push(json!({"bound": b, "iterations": col.iters, "outcomes": col.outcomes.len(), "verdict": sum.verdict.short()}));
        verdicts.push(sum.verdict.clone());
        sets.push(col.outcomes.keys().cloned().collect());
    }
    res.verdict = verdicts.last().unwrap().short();
    let full = sets.last().unwrap().clone();
    res.states = sets.iter().map(|s| s.len() as u64).sum::<u64>().max(1);
    res.transitions = res.loom_iterations.max(1);
    res.ref_outcomes = full.len() as u64;
    res.nontrivial = full.len() >= 2 && sets[0].len() < full.len();
    res.sample = json!({"program": p.text(), "by_bound": sample_rows});
    if res.capped {
        return res;
    }
    let all_ok = verdicts.iter().all(|v| *v == Verdict::Ok);
    if !all_ok {
        // programs with a deadlock etc.: only the per-iteration bound is checked
        res.dont_care = true;
        return res;
    }
    // attribution (for the known-findings list): does the outcome need a thread to continue after
    // `yield_now` without an operation of another thread in between (defect D25)?
    let mut strict: Option<Option<std::collections::BTreeSet<Outcome>>> = None;
    for (i, b) in bounds.iter().enumerate() {
        if b.is_none() {
            continue;
        }
        for o in &sets[i] {
            if !full.contains(o) {
                let attr = d25_attribution(p, o, &job.cfg, &mut strict);
                res.violations.push(viol("not_subset_of_unbounded", format!("bound={:?} {}", b, fmt_outcome(o)), "L_n ⊆ L_unbounded".into(), "outcome only found with the bound".into(), json!({"attribution": attr})));
            }
            if i + 1 < bounds.len() && !sets[i + 1].contains(o) {
                let attr = d25_attribution(p, o, &job.cfg, &mut strict);
                res.violations.push(viol("not_monotone", format!("bound={:?} {}", b, fmt_outcome(o)), "L_n ⊆ L_{n+1}".into(), "outcome lost when the bound grows".into(), json!({"attribution": attr})));
            }
        }
        if let Some(n) = b {
            if *n >= nops && sets[i] != full {
                for o in full.difference(&sets[i]) {
                    res.violations.push(viol("limit_not_reached", format!("bound={} {}", n, fmt_outcome(o)), "L_n = L_unbounded for n >= #ops".into(), "outcome missing".into(), json!({})));
                }
            }
        }
    }
    res
}

// ------------------------------------------------------------------------------------------
// iteration sequences (C13, C16, C19)
// ------------------------------------------------------------------------------------------

/// One iteration as text: decision path, outcome, completion history
pub fn iter_sig(it: &IterData) -> String {
    let notes = if it.notes.iter().any(|n| n.0 < 200) { format!(" | notes {:?}", it.notes.iter().filter(|n| n.0 < 200 && n.0 != 22).collect::<Vec<_>>()) } else { String::new() };
    format!("{} | {} | {}{}{}", fmt_path(&it.path), fmt_outcome(&it.results), crate::accept::fmt_history(&it.history), notes, if it.panicked { " | PANICKED" } else { "" })
}

#[derive(Default)]
pub struct SeqSink {
    pub sigs: Vec<String>,
    pub notes: Vec<Vec<(u8, u64, u64)>>,
}

impl IterSink for SeqSink {
    fn on_iter(&mut self, it: &IterData) {
        self.sigs.push(iter_sig(it));
        self.notes.push(it.notes.clone());
    }
}

pub fn run_seq(p: &Program, cfg: &subject::Cfg) -> (subject::RunSummary, SeqSink) {
    subject::run(p, cfg, SeqSink::default())
}

fn tmpdir() -> String {
    let d = format!("/tmp/vmc-{}-{:?}", std::process::id(), std::thread::current().id()).replace("ThreadId(", "t").replace(')', "");
    let _ = std::fs::create_dir_all(&d);
    d
}

fn clean(dir: &str) {
    let _ = std::fs::remove_dir_all(dir);
}

// ------------------------------------------------------------------------------------------
// C13: deterministic and resumable exploration
// ------------------------------------------------------------------------------------------

fn eval_c13(job: &Job) -> JobResult {
    let p = &job.program;
    let mut res = JobResult::default();
    let base = job.cfg.clone();
    let (sum1, s1) = run_seq(p, &base);
    let (sum2, s2) = run_seq(p, &base);
    let n = s1.sigs.len();
    res.loom_iterations = (s1.sigs.len() + s2.sigs.len()) as u64;
    res.verdict = sum1.verdict.short();
    res.nontrivial = n >= 3;
    res.states = n as u64;
    res.transitions = n as u64;
    res.sample = json!({"program": p.text(), "iterations": n, "verdict": res.verdict, "first": s1.sigs.first(), "last": s1.sigs.last()});
    if sum1.verdict == Verdict::Capped {
        res.capped = true;
        return res;
    }
    if s1.sigs != s2.sigs || sum1.verdict != sum2.verdict {
        let k = (0..n.min(s2.sigs.len())).find(|&i| s1.sigs[i] != s2.sigs[i]).unwrap_or(n.min(s2.sigs.len()));
        res.violations.push(viol("nondeterministic", "two full runs differ".into(), "the same executions in the same order".into(), format!("first difference at iteration {}", k + 1), json!({"run1": s1.sigs.get(k), "run2": s2.sigs.get(k), "n1": n, "n2": s2.sigs.len()})));
        return res;
    }
    res.traces_validated += n as u64;
    if sum1.verdict != Verdict::Ok {
        // resumption is only defined for runs that complete
        return res;
    }
    let dir = tmpdir();
    let intervals: Vec<usize> = job.extra.get("intervals").and_then(|v| serde_json::from_value(v.clone()).ok()).unwrap_or(vec![1, 2, 3, 7]);
    let mut stop_stride: usize = job.extra.get("stop_stride").and_then(|v| v.as_u64()).unwrap_or(1) as usize;
    if stop_stride == 0 {
        // adaptive: about 30 stop points per interval (always including k = 1)
        stop_stride = (n / 30).max(1);
    } else if stop_stride == 1 && n > 120 {
        // thorough: every stop point for runs of up to 120 iterations, about 120 evenly spaced
        // ones for longer runs (the cost is quadratic in the number of iterations)
        stop_stride = (n / 120).max(1);
    }
    'outer: for &c in &intervals {
        let mut k = 1;
        while k <= n {
            let file = format!("{}/ckpt-{}-{}.json", dir, c, k);
            let _ = std::fs::remove_file(&file);
            let mut cfg = base.clone();
            cfg.checkpoint_file = Some(file.clone());
            cfg.checkpoint_interval = Some(c);
            cfg.stop_at_iter = Some(k);
            let (sa, a) = run_seq(p, &cfg);
            res.loom_iterations += a.sigs.len() as u64;
            if sa.verdict != Verdict::User(9999) {
                res.violations.push(viol("stop_not_propagated", format!("c={} k={}", c, k), "the injected panic unwinds out of the model".into(), sa.verdict.short(), json!({})));
                break 'outer;
            }
            // the interrupted run itself must be a prefix of the uninterrupted one
            let pre_ok = a.sigs.len() == k && a.sigs[..k - 1] == s1.sigs[..k - 1];
            if !pre_ok {
                res.violations.push(viol("prefix_differs", format!("c={} k={}", c, k), "the interrupted run visits the first k-1 executions of the uninterrupted run".into(), format!("{} iterations reported", a.sigs.len()), json!({})));
                break 'outer;
            }
            // resume
            let boundary = if k >= c { c * (k / c) } else { 1 };
            let mut cfg2 = base.clone();
            cfg2.checkpoint_file = Some(file.clone());
            cfg2.checkpoint_interval = Some(c);
            let (sb, b) = run_seq(p, &cfg2);
            res.loom_iterations += b.sigs.len() as u64;
            let expect = &s1.sigs[boundary - 1..];
            if sb.verdict != Verdict::Ok || b.sigs[..] != expect[..] {
                let d = (0..b.sigs.len().min(expect.len())).find(|&i| b.sigs[i] != expect[i]);
                res.violations.push(viol(
                    "resume_differs",
                    format!("c={} k={}", c, k),
                    format!("the resumed run visits executions {}..={} of the uninterrupted run, in order", boundary, n),
                    format!("{} iterations, verdict {}, first difference at resumed iteration {:?}", b.sigs.len(), sb.verdict.short(), d.map(|x| x + 1)),
                    json!({"expected_first": expect.first(), "got_first": b.sigs.first(), "expected_len": expect.len()}),
                ));
                break 'outer;
            }
            res.traces_validated += b.sigs.len() as u64;
            let _ = std::fs::remove_file(&file);
            k += stop_stride;
        }
    }
    // chains: a run that was itself resumed is interrupted again and resumed a second time. The
    // resumed run counts its own iterations from 1, so it stores a checkpoint before its own
    // c-th, 2c-th ... iteration; the second resume starts from the last one stored (or from where
    // the first resume started, if the second run did not reach its first checkpoint).
    if res.violations.is_empty() {
        'chain: for &c in &intervals {
            let mut k1s: Vec<usize> = vec![1, c, c + 1, n / 2];
            k1s.retain(|&k| k >= 1 && k <= n);
            k1s.sort();
            k1s.dedup();
            for &k1 in &k1s {
                let b1 = if k1 >= c { c * (k1 / c) } else { 1 };
                let left = n - b1 + 1;
                let mut k2s: Vec<usize> = vec![1, c.saturating_sub(1), c, c + 1, 2 * c - 1, 2 * c, 2 * c + 1];
                k2s.retain(|&k| k >= 1 && k <= left);
                k2s.sort();
                k2s.dedup();
                for &k2 in &k2s {
                    let file = format!("{}/chain-{}-{}-{}.json", dir, c, k1, k2);
                    let _ = std::fs::remove_file(&file);
                    let mut cfg = base.clone();
                    cfg.checkpoint_file = Some(file.clone());
                    cfg.checkpoint_interval = Some(c);
                    cfg.stop_at_iter = Some(k1);
                    let (_sa, a) = run_seq(p, &cfg);
                    cfg.stop_at_iter = Some(k2);
                    let (sb, b) = run_seq(p, &cfg);
                    cfg.stop_at_iter = None;
                    let (sc, cc) = run_seq(p, &cfg);
                    res.loom_iterations += (a.sigs.len() + b.sigs.len() + cc.sigs.len()) as u64;
                    let b2 = if k2 >= c { b1 + c * (k2 / c) - 1 } else { b1 };
                    let expect = &s1.sigs[b2 - 1..];
                    let mid_ok = sb.verdict == Verdict::User(9999) && b.sigs.len() == k2 && b.sigs[..k2 - 1] == s1.sigs[b1 - 1..b1 + k2 - 2];
                    if !mid_ok || sc.verdict != Verdict::Ok || cc.sigs[..] != expect[..] {
                        let d = (0..cc.sigs.len().min(expect.len())).find(|&i| cc.sigs[i] != expect[i]);
                        res.violations.push(viol(
                            "second_resume_differs",
                            format!("c={} k1={} k2={}", c, k1, k2),
                            format!("the second resumed run visits executions {}..={} of the uninterrupted run, in order", b2, n),
                            format!("middle run ok: {}; {} iterations, verdict {}, first difference at iteration {:?}", mid_ok, cc.sigs.len(), sc.verdict.short(), d.map(|x| x + 1)),
                            json!({"expected_len": expect.len()}),
                        ));
                        break 'chain;
                    }
                    res.traces_validated += cc.sigs.len() as u64;
                    let _ = std::fs::remove_file(&file);
                }
            }
        }
    }
    // the same with the branch budget set to the exact need of the program: a resumed run must
    // not need more branches than the uninterrupted one
    {
        let longest = s1.sigs.iter().map(|s| s.split(" | ").next().unwrap_or("").split(' ').count()).max().unwrap_or(1);
        let mut tight = base.clone();
        tight.max_branches = longest;
        let (st, t1) = run_seq(p, &tight);
        res.loom_iterations += t1.sigs.len() as u64;
        if st.verdict == Verdict::Ok && t1.sigs == s1.sigs {
            let stride = (n / 25).max(1);
            let mut k = 1;
            while k <= n {
                let file = format!("{}/tight-{}.json", dir, k);
                let _ = std::fs::remove_file(&file);
                let mut cfg = tight.clone();
                cfg.checkpoint_file = Some(file.clone());
                cfg.checkpoint_interval = Some(1);
                cfg.stop_at_iter = Some(k);
                let (_sa, a) = run_seq(p, &cfg);
                let mut cfg2 = tight.clone();
                cfg2.checkpoint_file = Some(file.clone());
                cfg2.checkpoint_interval = Some(1);
                let (sb, b) = run_seq(p, &cfg2);
                res.loom_iterations += (a.sigs.len() + b.sigs.len()) as u64;
                let expect = &s1.sigs[k - 1..];
                if sb.verdict != Verdict::Ok || b.sigs[..] != expect[..] {
                    res.violations.push(viol(
                        "resume_differs_tight_budget",
                        format!("max_branches={} k={}", longest, k),
                        "with max_branches equal to the program's need the resumed run completes like the uninterrupted one".into(),
                        format!("{} iterations, verdict {}", b.sigs.len(), sb.verdict.short()),
                        json!({}),
                    ));
                    break;
                }
                res.traces_validated += b.sigs.len() as u64;
                let _ = std::fs::remove_file(&file);
                k += stride;
            }
        } else if st.verdict != Verdict::Ok {
            res.violations.push(viol("tight_budget", format!("max_branches={}", longest), "Ok: the budget equals the longest path".into(), st.verdict.short(), json!({})));
        }
    }
    // failing variants: "assert outcome != o" with interval 1 must fail again first thing after loading
    let mut outcomes: Vec<String> = vec![];
    for s in &s1.sigs {
        let o = s.split(" | ").nth(1).unwrap_or("").to_string();
        if !outcomes.contains(&o) {
            outcomes.push(o);
        }
    }
    for (oi, o) in outcomes.iter().enumerate() {
        let file = format!("{}/fail-{}.json", dir, oi);
        let _ = std::fs::remove_file(&file);
        let mut cfg = base.clone();
        cfg.checkpoint_file = Some(file.clone());
        cfg.checkpoint_interval = Some(1);
        cfg.fail_outcome = Some(o.clone());
        let (sa, a) = run_seq(p, &cfg);
        res.loom_iterations += a.sigs.len() as u64;
        let first_idx = s1.sigs.iter().position(|s| s.split(" | ").nth(1) == Some(o.as_str())).unwrap();
        if sa.verdict != Verdict::User(7777) || a.sigs.len() != first_idx + 1 {
            res.violations.push(viol("failure_not_propagated", format!("outcome {}", o), format!("the run fails in iteration {}", first_idx + 1), format!("verdict {} after {} iterations", sa.verdict.short(), a.sigs.len()), json!({})));
            break;
        }
        let (sb, b) = run_seq(p, &cfg);
        res.loom_iterations += b.sigs.len() as u64;
        // the failing iteration ends before the main thread's exit (lazy statics, thread-local
        // destructors, final schedule branch): same outcome and history, its path a prefix
        let same = |got: &String, exp: &String| -> bool {
            let g: Vec<&str> = got.split(" | ").collect();
            let e: Vec<&str> = exp.split(" | ").collect();
            g.len() >= 3 && e.len() >= 3 && e[0].starts_with(g[0]) && g[1] == e[1] && g[2] == e[2]
        };
        if sb.verdict != Verdict::User(7777) || b.sigs.len() != 1 || !same(&b.sigs[0], &s1.sigs[first_idx]) {
            res.violations.push(viol(
                "failure_not_reproduced",
                format!("outcome {}", o),
                "the stored checkpoint of a failing iteration reproduces that failure as the first iteration after loading".into(),
                format!("verdict {} after {} iterations", sb.verdict.short(), b.sigs.len()),
                json!({"expected": s1.sigs[first_idx], "got": b.sigs.first()}),
            ));
            break;
        }
        res.traces_validated += 1;
        let _ = std::fs::remove_file(&file);
    }
    clean(&dir);
    res
}

// ------------------------------------------------------------------------------------------
// C16: iterations and model runs are isolated
// ------------------------------------------------------------------------------------------

#[derive(serde::Serialize, serde::Deserialize, Default, Clone, PartialEq, Debug)]
pub struct SeqReport {
    pub verdict: String,
    pub sigs: Vec<String>,
    pub notes: Vec<Vec<(u8, u64, u64)>>,
}

pub fn seq_report(p: &Program, cfg: &subject::Cfg) -> SeqReport {
    let (sum, s) = run_seq(p, cfg);
    SeqReport { verdict: sum.verdict.short(), sigs: s.sigs, notes: s.notes }
}

/// Run (program, cfg) in a brand-new process and return what it saw.
pub fn fresh_process_seq(p: &Program, cfg: &subject::Cfg) -> Result<SeqReport, String> {
    use std::io::Write;
    let exe = std::env::current_exe().map_err(|e| e.to_string())?;
    let mut child = std::process::Command::new(exe)
        .arg("oneshot")
        .env_remove("RUST_BACKTRACE")
        .stdin(std::process::Stdio::piped())
        .stdout(std::process::Stdio::piped())
        .stderr(std::process::Stdio::null())
        .spawn()
        .map_err(|e| e.to_string())?;
    let input = serde_json::to_string(&json!({"program": p, "cfg": cfg})).unwrap();
    child.stdin.take().unwrap().write_all(input.as_bytes()).map_err(|e| e.to_string())?;
    let out = child.wait_with_output().map_err(|e| e.to_string())?;
    if !out.status.success() {
        return Err(format!("fresh process died: {}", out.status));
    }
    serde_json::from_slice(&out.stdout).map_err(|e| format!("bad oneshot output: {}", e))
}

pub fn oneshot_main() {
    std::panic::set_hook(Box::new(|_| {}));
    let mut input = String::new();
    use std::io::Read;
    std::io::stdin().read_to_string(&mut input).expect("stdin");
    let v: serde_json::Value = serde_json::from_str(&input).expect("json");
    if let Some(which) = v.get("custom_c06").and_then(|x| x.as_u64()) {
        let (msg, n) = crate::statics::failing_drop_waits_model(which as usize);
        println!("{}", json!({"message": msg, "second_model_iterations": n}));
        return;
    }
    let p: Program = serde_json::from_value(v["program"].clone()).expect("program");
    let cfg: subject::Cfg = serde_json::from_value(v["cfg"].clone()).expect("cfg");
    let r = seq_report(&p, &cfg);
    println!("{}", serde_json::to_string(&r).unwrap());
}

/// Run `vmc oneshot` on `input` in a child process with a watchdog: Ok(stdout), or Err("hang") /
/// Err("died: ...").
fn oneshot_with_watchdog(input: &serde_json::Value, secs: u64) -> Result<Vec<u8>, String> {
    use std::io::{Read, Write};
    let exe = std::env::current_exe().map_err(|e| e.to_string())?;
    let mut child = std::process::Command::new(exe)
        .arg("oneshot")
        .env_remove("RUST_BACKTRACE")
        .stdin(std::process::Stdio::piped())
        .stdout(std::process::Stdio::piped())
        .stderr(std::process::Stdio::null())
        .spawn()
        .map_err(|e| e.to_string())?;
    child.stdin.take().unwrap().write_all(input.to_string().as_bytes()).map_err(|e| e.to_string())?;
    let t0 = std::time::Instant::now();
    loop {
        match child.try_wait().map_err(|e| e.to_string())? {
            Some(st) => {
                let mut out = vec![];
                if let Some(mut o) = child.stdout.take() {
                    let _ = o.read_to_end(&mut out);
                }
                return if st.success() { Ok(out) } else { Err(format!("died: {}", st)) };
            }
            None => {
                if t0.elapsed().as_secs() >= secs {
                    let _ = child.kill();
                    let _ = child.wait();
                    return Err("hang".into());
                }
                std::thread::sleep(std::time::Duration::from_millis(20));
            }
        }
    }
}

/// C06, hand-written models (statics.rs): a destructor that runs while the failing thread unwinds
/// waits for another thread. Run in a child process under a watchdog.
fn eval_c06_custom(job: &Job) -> JobResult {
    let mut res = JobResult::default();
    let which = job.extra["which"].as_u64().unwrap_or(0);
    res.nontrivial = true;
    res.states = 1;
    res.transitions = 1;
    let want = format!("VMC custom failure {}", which);
    match oneshot_with_watchdog(&json!({"custom_c06": which}), 12) {
        Ok(out) => {
            let v: serde_json::Value = serde_json::from_slice(&out).unwrap_or(json!({}));
            let msg = v["message"].as_str().unwrap_or("").to_string();
            let n2 = v["second_model_iterations"].as_u64().unwrap_or(0);
            res.verdict = "User".into();
            res.loom_iterations = n2;
            res.sample = json!({"mode": "custom", "model": which, "message": msg, "second_model_iterations": n2});
            if !msg.contains(&want) {
                res.violations.push(viol("wrong_failure", format!("custom model {}", which), format!("the model unwinds with `{}`", want), msg, json!({})));
            } else if n2 < 2 {
                res.violations.push(viol("next_model_not_clean", format!("custom model {}", which), "a later model run explores both orders of two RMWs".into(), format!("{} iterations", n2), json!({})));
            } else {
                res.traces_validated += 1;
            }
        }
        Err(e) => {
            res.verdict = e.clone();
            let kind = if e == "hang" { "hang" } else { "aborted" };
            res.violations.push(viol(kind, format!("custom model {}", which), format!("the model unwinds with `{}` and a later model runs", want), e, json!({})));
        }
    }
    res
}

fn first_diff(a: &[String], b: &[String]) -> String {
    match (0..a.len().min(b.len())).find(|&i| a[i] != b[i]) {
        Some(i) => format!("iteration {}: expected `{}` got `{}`", i + 1, a[i], b[i]),
        None => format!("lengths {} vs {}", a.len(), b.len()),
    }
}

/// Prelude invariance: the program starts with an independent racing prelude that main joins
/// (see `families::with_prelude`). Iterations are grouped by the prelude's decisions (the path up
/// to the position noted by `Mark`); the sequence of (tail decisions, results) must be the same
/// in every group - the state after the prelude is the same, so nothing from an earlier
/// iteration may change how the rest is explored.
fn eval_c16_prelude(job: &Job) -> JobResult {
    let p = &job.program;
    let mut res = JobResult::default();
    // (prelude decisions, tail signature) per iteration, in order
    let rows: std::rc::Rc<std::cell::RefCell<Vec<(Vec<(u8, u8)>, String)>>> = Default::default();
    let r2 = rows.clone();
    let sink = move |it: &IterData| {
        let pos = it.notes.iter().find(|n| n.0 == 40).map(|n| n.1 as usize);
        let all: Vec<(u8, u8)> = it.path.iter().map(bk).collect();
        let (pre, tail) = match pos {
            Some(k) if k <= all.len() => (all[..k].to_vec(), all[k..].to_vec()),
            _ => (all.clone(), vec![]),
        };
        // results of the original program's threads only (the prelude's two threads come last)
        let own: Outcome = it.results[..it.results.len().saturating_sub(2)].to_vec();
        let sig = format!("{:?} {} {}", tail, fmt_outcome(&own), if it.panicked { "PANICKED" } else { "" });
        r2.borrow_mut().push((pre, sig));
    };
    let (sum, _) = subject::run(p, &job.cfg, sink);
    let rows = rows.borrow();
    res.loom_iterations = rows.len() as u64;
    res.verdict = sum.verdict.short();
    res.capped = sum.verdict == Verdict::Capped;
    if res.capped {
        return res;
    }
    let mut groups: Vec<(Vec<(u8, u8)>, Vec<String>)> = vec![];
    for (pre, sig) in rows.iter() {
        match groups.last_mut() {
            Some((gp, sigs)) if gp == pre => sigs.push(sig.clone()),
            _ => groups.push((pre.clone(), vec![sig.clone()])),
        }
    }
    res.states = groups.len() as u64;
    res.transitions = rows.len() as u64;
    res.nontrivial = groups.len() >= 2 && groups[0].1.len() >= 2;
    res.sample = json!({"mode": "prelude", "program": p.text(), "groups": groups.len(), "tail_iterations": groups.iter().map(|g| g.1.len()).collect::<Vec<_>>(), "verdict": res.verdict});
    // a failing run stops inside the first group: nothing to compare
    if sum.verdict != Verdict::Ok {
        return res;
    }
    if groups.len() < 2 {
        res.violations.push(viol("prelude_not_explored", format!("{} groups", groups.len()), "both orders of the racing prelude are explored".into(), String::new(), json!({})));
        return res;
    }
    for g in &groups[1..] {
        if g.1 != groups[0].1 {
            let k = (0..g.1.len().min(groups[0].1.len())).find(|&i| g.1[i] != groups[0].1[i]);
            let what = match k {
                Some(i) => format!("tail iteration {}: {} vs {}", i + 1, groups[0].1[i], g.1[i]),
                None => format!("{} vs {} tail iterations", groups[0].1.len(), g.1.len()),
            };
            res.violations.push(viol("tail_depends_on_history", "prelude".into(), "the sub-tree explored after the prelude is the same under every order of the prelude".into(), what, json!({"first_group": groups[0].1.len(), "this_group": g.1.len()})));
            break;
        }
        res.traces_validated += g.1.len() as u64;
    }
    res
}

/// Hand-written models (statics.rs): an initialiser of a lazy static / thread-local fails in the
/// iterations in which a racing store came first; the panic is caught inside the model. Every
/// iteration must end normally, with the signature that its own race result implies.
fn eval_c16_custom(job: &Job) -> JobResult {
    let mut res = JobResult::default();
    let which = job.extra["which"].as_u64().unwrap_or(0) as usize;
    let sigs: std::sync::Arc<std::sync::Mutex<Vec<String>>> = Default::default();
    let s2 = sigs.clone();
    let mut b = loom::model::Builder::new();
    b.log = false;
    let r = std::panic::catch_unwind(std::panic::AssertUnwindSafe(move || {
        b.check(move || {
            let sig = crate::statics::failing_init_model(which);
            s2.lock().unwrap_or_else(|e| e.into_inner()).push(sig);
        })
    }));
    let sigs = sigs.lock().unwrap_or_else(|e| e.into_inner()).clone();
    res.loom_iterations = sigs.len() as u64;
    res.states = sigs.len() as u64;
    res.transitions = sigs.len() as u64;
    res.nontrivial = true;
    res.sample = json!({"mode": "custom", "model": which, "iterations": sigs.len(), "signatures": sigs.iter().collect::<std::collections::BTreeSet<_>>()});
    if let Err(p) = r {
        let msg = p.downcast_ref::<&str>().map(|s| s.to_string()).or_else(|| p.downcast_ref::<String>().cloned()).unwrap_or_default();
        res.verdict = subject::classify(&msg).short();
        res.violations.push(viol("iteration_depends_on_history", format!("custom model {}", which), "every iteration ends normally: a failed initialiser of an earlier iteration leaves nothing behind".into(), format!("after {} iterations: {}", sigs.len(), msg.lines().next().unwrap_or("")), json!({"signatures": sigs})));
        return res;
    }
    res.verdict = "Ok".into();
    let want: std::collections::BTreeSet<&str> = ["fails=false ok7", "fails=true init-panicked"].into_iter().collect();
    let got: std::collections::BTreeSet<&str> = sigs.iter().map(|s| s.as_str()).collect();
    if got != want {
        res.violations.push(viol("iteration_depends_on_history", format!("custom model {}", which), format!("{:?}", want), format!("{:?}", got), json!({})));
    } else {
        res.traces_validated += sigs.len() as u64;
    }
    res
}

fn eval_c16(job: &Job) -> JobResult {
    if job.extra.get("mode").and_then(|v| v.as_str()) == Some("prelude") {
        return eval_c16_prelude(job);
    }
    if job.extra.get("mode").and_then(|v| v.as_str()) == Some("custom") {
        return eval_c16_custom(job);
    }
    let p = &job.program;
    let mut res = JobResult::default();
    let mode = job.extra.get("mode").and_then(|v| v.as_str()).unwrap_or("isolated").to_string();
    let cfg = job.cfg.clone();
    let solo_p = match fresh_process_seq(p, &cfg) {
        Ok(r) => r,
        Err(e) => {
            res.violations.push(viol("aborted", "process".into(), "a model run ends by returning or unwinding".into(), e, json!({})));
            return res;
        }
    };
    res.states = solo_p.sigs.len() as u64;
    res.transitions = solo_p.sigs.len() as u64;
    res.loom_iterations = solo_p.sigs.len() as u64;
    res.verdict = solo_p.verdict.clone();
    res.nontrivial = solo_p.sigs.len() >= 2;
    res.sample = json!({"mode": mode, "program": p.text(), "iterations": solo_p.sigs.len(), "verdict": solo_p.verdict});
    if solo_p.verdict == "Capped" {
        res.capped = true;
        return res;
    }
    match mode.as_str() {
        "pair" | "concurrent" => {
            let q: Program = serde_json::from_value(job.extra["other"].clone()).expect("other program");
            let solo_q = match fresh_process_seq(&q, &cfg) {
                Ok(r) => r,
                Err(e) => {
                    res.violations.push(viol("aborted", "process".into(), "a model run ends by returning or unwinding".into(), e, json!({})));
                    return res;
                }
            };
            res.sample["other"] = json!(q.text());
            let (rp, rq) = if mode == "pair" {
                // back to back in this (long-lived) process
                let rp = seq_report(p, &cfg);
                let rq = seq_report(&q, &cfg);
                (rp, rq)
            } else {
                // two OS threads at once
                let (p2, q2, c1, c2) = (p.clone(), q.clone(), cfg.clone(), cfg.clone());
                let h1 = std::thread::spawn(move || seq_report(&p2, &c1));
                let h2 = std::thread::spawn(move || seq_report(&q2, &c2));
                (h1.join().expect("model thread"), h2.join().expect("model thread"))
            };
            res.loom_iterations += (rp.sigs.len() + rq.sigs.len()) as u64;
            for (name, solo, got, prog) in [("first", &solo_p, &rp, p), ("second", &solo_q, &rq, &q)] {
                if solo.sigs != got.sigs || solo.verdict != got.verdict {
                    res.violations.push(viol(
                        "depends_on_other_model",
                        format!("{} {} program differs from its fresh-process run", mode, name),
                        "the results of a model run do not depend on other models in the process".into(),
                        format!("{} (verdicts {} vs {})", first_diff(&solo.sigs, &got.sigs), solo.verdict, got.verdict),
                        json!({"program": prog.text()}),
                    ));
                } else {
                    res.traces_validated += got.sigs.len() as u64;
                }
            }
        }
        _ => {
            // every iteration replayed in isolation from the checkpoint stored before it
            let dir = tmpdir();
            let file = format!("{}/iso.json", dir);
            let mut c = cfg.clone();
            c.checkpoint_file = Some(file.clone());
            c.checkpoint_interval = Some(1);
            c.snapshot_checkpoints = true;
            c.fingerprint = true;
            let full = seq_report(p, &c);
            res.loom_iterations += full.sigs.len() as u64;
            if full.sigs != solo_p.sigs {
                res.violations.push(viol("depends_on_checkpointing", "full run".into(), "checkpointing does not change the exploration".into(), first_diff(&solo_p.sigs, &full.sigs), json!({})));
            }
            // identical fingerprint and main thread id at the start of every iteration
            for (i, n) in full.notes.iter().enumerate() {
                let fp: Vec<&(u8, u64, u64)> = n.iter().filter(|x| x.0 == 200 || x.0 == 201 || x.0 == 202).collect();
                let fp0: Vec<&(u8, u64, u64)> = full.notes[0].iter().filter(|x| x.0 == 200 || x.0 == 201 || x.0 == 202).collect();
                if fp != fp0 {
                    res.violations.push(viol("dirty_initial_state", "fingerprint".into(), "every iteration starts from the same initial state".into(), format!("iteration {}: {:?} vs first {:?}", i + 1, fp, fp0), json!({})));
                    break;
                }
                if n.iter().any(|x| x.0 == 201 && x.2 != 0) {
                    res.violations.push(viol("dirty_initial_state", "main thread id".into(), "thread ids start again at the main thread".into(), format!("iteration {}", i + 1), json!({})));
                    break;
                }
            }
            let n = full.sigs.len();
            let stride = if job.tier == "quick" { (n / 12).max(1) } else { 1 };
            let mut i = 1;
            while i <= n {
                let snap = format!("{}.{}", file, i);
                let one = format!("{}/one-{}.json", dir, i);
                if std::fs::copy(&snap, &one).is_err() {
                    res.machinery_error = Some(format!("checkpoint snapshot {} missing", snap));
                    break;
                }
                let mut c1 = cfg.clone();
                c1.checkpoint_file = Some(one.clone());
                c1.checkpoint_interval = Some(1);
                c1.max_permutations = Some(2);
                match fresh_process_seq(p, &c1) {
                    Ok(r) => {
                        let strip = |s: &String| s.replace(" | PANICKED", "");
                        let last_panics = i == n && solo_p.verdict != "Ok";
                        let ok = r.sigs.len() == 1 && strip(&r.sigs[0]) == strip(&full.sigs[i - 1]) && (last_panics || r.verdict == "Ok");
                        if !ok {
                            res.violations.push(viol(
                                "iteration_depends_on_history",
                                format!("iteration {}", i),
                                "an iteration replayed alone from its checkpoint equals the same iteration inside the full run".into(),
                                format!("isolated: {:?} ({}); in the run: {}", r.sigs.first(), r.verdict, full.sigs[i - 1]),
                                json!({}),
                            ));
                            break;
                        }
                        res.traces_validated += 1;
                    }
                    Err(e) => {
                        res.violations.push(viol("aborted", "process".into(), "a model run ends by returning or unwinding".into(), e, json!({})));
                        break;
                    }
                }
                i += stride;
            }
            clean(&dir);
        }
    }
    res
}

// ------------------------------------------------------------------------------------------
// C19: exploration controls and limits
// ------------------------------------------------------------------------------------------

/// The `exploring` flag every decision of an iteration must carry, computed from where the
/// control calls were executed (notes 30 stop / 31 explore / 32 skip, with the number of
/// decisions taken before the call - hook `path_pos()`), independently of loom's own flags.
fn expected_exploring(it: &IterData, on_start: bool) -> Vec<bool> {
    let ctl: Vec<(u8, usize)> = it.notes.iter().filter(|n| (30..=32).contains(&n.0)).map(|n| (n.0, n.1 as usize)).collect();
    let (mut exploring, mut skipping) = (on_start, false);
    let mut out = Vec::with_capacity(it.path.len());
    let mut next = 0;
    for k in 0..it.path.len() {
        while next < ctl.len() && ctl[next].1 <= k {
            match ctl[next].0 {
                30 if !skipping => exploring = false,
                31 if !skipping => exploring = true,
                32 => {
                    exploring = false;
                    skipping = true;
                }
                _ => {}
            }
            next += 1;
        }
        out.push(exploring);
    }
    out
}

struct CtlSink {
    /// initial state of the exploring flag (`!expect_explicit_explore`)
    on_start: bool,
    prev: Vec<((u8, u8), bool)>,
    outcomes: std::collections::BTreeSet<Outcome>,
    iters: u64,
    longest: usize,
    viol: Option<String>,
}

impl IterSink for CtlSink {
    fn on_iter(&mut self, it: &IterData) {
        self.iters += 1;
        self.longest = self.longest.max(it.path.len());
        // decisions are classified by where the control calls ran, not by loom's own flag ...
        let exp = expected_exploring(it, self.on_start);
        let cur: Vec<((u8, u8), bool)> = it.path.iter().zip(exp.iter()).map(|(b, e)| (bk(b), *e)).collect();
        // ... and loom's flag must agree with that for every decision of a complete iteration
        if self.viol.is_none() && !it.panicked {
            if let Some(k) = (0..it.path.len()).find(|&k| it.path[k].exploring != exp[k]) {
                self.viol = Some(format!(
                    "iteration {}: decision {} ({:?}) is recorded with exploring={} but the control calls executed before it leave exploring={} ({})",
                    it.index,
                    k,
                    it.path[k].kind,
                    it.path[k].exploring,
                    exp[k],
                    fmt_path(&it.path)
                ));
            }
        }
        if self.iters > 1 && self.viol.is_none() {
            match (0..cur.len().min(self.prev.len())).find(|&i| cur[i].0 != self.prev[i].0) {
                Some(k) => {
                    if !self.prev[k].1 {
                        self.viol = Some(format!("iteration {} takes another alternative at depth {} although that decision was taken with exploration disabled ({})", it.index, k, fmt_path(&it.path)));
                    }
                }
                None => self.viol = Some(format!("iteration {} repeats or extends the previous path", it.index)),
            }
        }
        self.prev = cur;
        if it.complete() {
            self.outcomes.insert(it.results.clone());
        }
    }
}

fn run_ctl(p: &Program, cfg: &subject::Cfg) -> (subject::RunSummary, CtlSink) {
    subject::run(p, cfg, CtlSink { on_start: !cfg.expect_explicit_explore, prev: vec![], outcomes: Default::default(), iters: 0, longest: 0, viol: None })
}

/// remove the results at the given (thread, position)s
fn project(o: &Outcome, drop: &[(usize, usize)]) -> Outcome {
    o.iter().enumerate().map(|(t, rs)| rs.iter().enumerate().filter(|(i, _)| !drop.contains(&(t, *i))).map(|(_, r)| *r).collect()).collect()
}

fn eval_c19(job: &Job) -> JobResult {
    let p = &job.program;
    let mut res = JobResult::default();
    let sc = scm::explore(p, scm::Mode::explore(p), SC_MAX_STATES);
    if sc.truncated || !sc.bad_kinds().is_empty() {
        res.dont_care = true;
        return res;
    }
    res.states = sc.states;
    res.transitions = sc.transitions;
    let cfg = job.cfg.clone();
    let (sum, full) = run_ctl(p, &cfg);
    res.loom_iterations = full.iters;
    res.verdict = sum.verdict.short();
    if sum.verdict == Verdict::Capped {
        res.capped = true;
        return res;
    }
    if sum.verdict != Verdict::Ok || full.viol.is_some() {
        res.violations.push(viol("base_run", sum.verdict.short(), "Ok".into(), full.viol.clone().unwrap_or_default(), json!({})));
        return res;
    }
    let n = full.iters as usize;
    let b = full.longest;
    let k = p.threads.len();
    // programs with non-SeqCst accesses have outcomes the SC machine does not produce: their
    // restricted runs are compared with the unrestricted loom run only
    let weak = p.threads.iter().flatten().any(|o| match o.k {
        K::Load { mo, .. } | K::Store { mo, .. } | K::Swap { mo, .. } | K::FetchAdd { mo, .. } | K::Await { mo, .. } | K::AwaitSpun { mo, .. } | K::Await2 { mo, .. } | K::NWaitUntil { mo, .. } => mo != MO::Sc,
        K::Cas { s, f, .. } => s != MO::Sc || f != MO::Sc,
        _ => false,
    });
    res.nontrivial = n >= 2;
    res.ref_outcomes = sc.done.len() as u64;
    let mut variants = 0u64;
    let mut push = |res: &mut JobResult, kind: &str, detail: String, expected: &str, observed: String| {
        if res.violations.len() < 6 {
            res.violations.push(viol(kind, detail, expected.into(), observed, json!({})));
        }
    };

    // (a) control placements
    for t in 0..k {
        let (lo, hi) = if t == 0 {
            let s = p.threads[0].iter().rposition(|o| matches!(o.k, K::Spawn { .. })).map(|x| x + 1).unwrap_or(0);
            let j = p.threads[0].iter().position(|o| matches!(o.k, K::Join { .. })).unwrap_or(p.threads[0].len());
            (s, j)
        } else {
            (0, p.threads[t].len())
        };
        for i in lo..=hi {
            // stop at i, explore at j (j >= i, positions in the original numbering)
            for j in i..=hi {
                let q = crate::families::insert_op(p, t, j, K::Explore.into());
                let q = crate::families::insert_op(&q, t, i, K::StopExploring.into());
                let dropped = vec![(t, i), (t, j + 1)];
                let (s2, r2) = run_ctl(&q, &cfg);
                variants += 1;
                res.loom_iterations += r2.iters;
                let name = format!("T{} stop@{} explore@{}", t, i, j);
                if s2.verdict != Verdict::Ok {
                    push(&mut res, "control_verdict", name.clone(), "Ok", s2.verdict.short());
                    continue;
                }
                if let Some(v) = &r2.viol {
                    push(&mut res, "explored_inside_region", name.clone(), "no alternative is explored for a decision taken with exploration disabled", v.clone());
                }
                let proj: std::collections::BTreeSet<Outcome> = r2.outcomes.iter().map(|o| project(o, &dropped)).collect();
                for o in &proj {
                    if !full.outcomes.contains(o) || (!weak && !sc.done.contains(o)) {
                        push(&mut res, "restricted_not_subset", format!("{} {}", name, fmt_outcome(o)), "every execution of the restricted run is an execution of the unrestricted one", "extra outcome".into());
                    }
                }
                if i == j && proj != full.outcomes {
                    push(&mut res, "outside_region_not_explored", name.clone(), "an empty region restricts nothing", format!("{} of {} outcomes", proj.len(), full.outcomes.len()));
                }
                res.traces_validated += r2.iters;
            }
            // skip_branch at i
            {
                let q = crate::families::insert_op(p, t, i, K::SkipBranch.into());
                let (s2, r2) = run_ctl(&q, &cfg);
                variants += 1;
                res.loom_iterations += r2.iters;
                let name = format!("T{} skip_branch@{}", t, i);
                if s2.verdict != Verdict::Ok {
                    push(&mut res, "control_verdict", name.clone(), "Ok", s2.verdict.short());
                } else {
                    if let Some(v) = &r2.viol {
                        push(&mut res, "explored_inside_region", name.clone(), "no alternative is explored after skip_branch()", v.clone());
                    }
                    for o in r2.outcomes.iter().map(|o| project(o, &[(t, i)])) {
                        if !full.outcomes.contains(&o) {
                            push(&mut res, "restricted_not_subset", format!("{} {}", name, fmt_outcome(&o)), "subset of the unrestricted result set", "extra outcome".into());
                        }
                    }
                    res.traces_validated += r2.iters;
                }
            }
            // expect_explicit_explore: exploration starts at explore()
            {
                let q = crate::families::insert_op(p, t, i, K::Explore.into());
                let mut c2 = cfg.clone();
                c2.expect_explicit_explore = true;
                let (s2, r2) = run_ctl(&q, &c2);
                variants += 1;
                res.loom_iterations += r2.iters;
                let name = format!("T{} explicit explore@{}", t, i);
                if s2.verdict != Verdict::Ok {
                    push(&mut res, "control_verdict", name.clone(), "Ok", s2.verdict.short());
                } else {
                    if let Some(v) = &r2.viol {
                        push(&mut res, "explored_inside_region", name.clone(), "nothing is explored before explore() with expect_explicit_explore", v.clone());
                    }
                    for o in r2.outcomes.iter().map(|o| project(o, &[(t, i)])) {
                        if !full.outcomes.contains(&o) {
                            push(&mut res, "restricted_not_subset", format!("{} {}", name, fmt_outcome(&o)), "subset of the unrestricted result set", "extra outcome".into());
                        }
                    }
                    res.traces_validated += r2.iters;
                }
            }
        }
    }

    // (a2) two controls together: a skip_branch() that fires only in some iterations (guarded by a
    // schedule-dependent result) combined with a stop/explore region or an explicit explore().
    // Adding the skip can only remove executions in which it fires: L(skip+ctl) ⊆ L(ctl), and
    // every execution of L(ctl) in which the skip does not fire must still be explored.
    {
        let insert_many = |p: &Program, mut ins: Vec<(usize, usize, Op)>| -> (Program, Vec<(usize, usize)>) {
            // insert in descending position order per thread so earlier positions stay valid;
            // returns the final positions of the inserted ops
            ins.sort_by(|a, b| (b.0, b.1).cmp(&(a.0, a.1)));
            let mut q = p.clone();
            for (t, pos, op) in &ins {
                q = crate::families::insert_op(&q, *t, *pos, op.clone());
            }
            // final positions: original pos + number of inserted ops at positions <= pos in that thread (stable)
            let mut asc = ins.clone();
            asc.sort_by(|a, b| (a.0, a.1).cmp(&(b.0, b.1)));
            let mut finals = vec![];
            for (idx, (t, pos, _)) in asc.iter().enumerate() {
                let before = asc[..idx].iter().filter(|x| x.0 == *t).count();
                finals.push((*t, pos + before));
            }
            (q, finals)
        };
        let mut skips: Vec<(usize, usize, Res)> = vec![];
        for t in 1..k {
            for i in 1..=p.threads[t].len() {
                let prev = &p.threads[t][i - 1];
                if prev.g.is_some() || !matches!(prev.k, K::Load { .. } | K::Swap { .. } | K::FetchAdd { .. } | K::Cas { .. } | K::TryLock { .. }) {
                    continue;
                }
                let vals: std::collections::BTreeSet<Res> = full.outcomes.iter().map(|o| o[t][i - 1]).collect();
                if vals.len() < 2 {
                    continue;
                }
                for v in vals {
                    skips.push((t, i, v));
                }
            }
        }
        // controls: regions in any child thread, and explicit explore
        let mut ctls: Vec<(Vec<(usize, usize, Op)>, bool, String)> = vec![];
        for t in 1..k {
            for i in 0..=p.threads[t].len() {
                for j in i..=p.threads[t].len() {
                    ctls.push((vec![(t, i, K::StopExploring.into()), (t, j, K::Explore.into())], false, format!("T{} stop@{} explore@{}", t, i, j)));
                }
                ctls.push((vec![(t, i, K::Explore.into())], true, format!("T{} explicit explore@{}", t, i)));
            }
        }
        for (st, si, sv) in skips.iter().take(6) {
            for (ctl, explicit, cname) in &ctls {
                let mut c2 = cfg.clone();
                c2.expect_explicit_explore = *explicit;
                // stop must come before explore when both are at the same position: order by insertion
                let mut base_ins = ctl.clone();
                if base_ins.len() == 2 && base_ins[0].1 == base_ins[1].1 {
                    // same position: insert explore first so that stop ends up before it
                    base_ins.swap(0, 1);
                }
                let (q_ctl, pos_ctl) = insert_many(p, base_ins.clone());
                let (s_ctl, r_ctl) = run_ctl(&q_ctl, &c2);
                let mut with_skip = base_ins.clone();
                with_skip.push((*st, *si, K::SkipBranch.when(si - 1, *sv)));
                let (q_both, pos_both) = insert_many(p, with_skip);
                let (s_both, r_both) = run_ctl(&q_both, &c2);
                variants += 2;
                res.loom_iterations += r_ctl.iters + r_both.iters;
                if s_ctl.verdict != Verdict::Ok || s_both.verdict != Verdict::Ok {
                    // e.g. stop_exploring() while not exploring: not a placement the property covers
                    continue;
                }
                let name = format!("skip_branch@T{}:{} if {} + {}", st, si, sv, cname);
                let l_ctl: std::collections::BTreeSet<Outcome> = r_ctl.outcomes.iter().map(|o| project(o, &pos_ctl)).collect();
                let l_both: std::collections::BTreeSet<Outcome> = r_both.outcomes.iter().map(|o| project(o, &pos_both)).collect();
                for o in &l_both {
                    if !l_ctl.contains(o) {
                        push(&mut res, "skip_widens_exploration", format!("{} {}", name, fmt_outcome(o)), "a skip_branch() in one iteration never adds executions", "outcome only explored with the skip".into());
                    }
                }
                for o in &l_ctl {
                    if o[*st][si - 1] != *sv && !l_both.contains(o) {
                        push(&mut res, "skip_leaks_into_other_iterations", format!("{} {}", name, fmt_outcome(o)), "executions in which the skip does not fire are still explored".into(), "outcome lost".into());
                    }
                }
                res.traces_validated += r_both.iters;
            }
        }
    }

    // (a3) skip_branch() while exploration is already off: inside a stop/explore region
    // (stop@i, skip@s, explore@j with i <= s <= j) and before the explicit explore() of
    // expect_explicit_explore. The skip latches: the later explore() must not switch exploration
    // back on. Checked through the expected flags (run_ctl) and the subset relation.
    for t in 1..k.min(3) {
        let hi = p.threads[t].len();
        for i in 0..=hi {
            for sk in i..=hi {
                for j in sk..=hi {
                    let q = crate::families::insert_op(p, t, j, K::Explore.into());
                    let q = crate::families::insert_op(&q, t, sk, K::SkipBranch.into());
                    let q = crate::families::insert_op(&q, t, i, K::StopExploring.into());
                    let (s2, r2) = run_ctl(&q, &cfg);
                    variants += 1;
                    res.loom_iterations += r2.iters;
                    let name = format!("T{} stop@{} skip@{} explore@{}", t, i, sk, j);
                    if s2.verdict != Verdict::Ok {
                        push(&mut res, "control_verdict", name.clone(), "Ok", s2.verdict.short());
                        continue;
                    }
                    if let Some(v) = &r2.viol {
                        push(&mut res, "explored_inside_region", name.clone(), "skip_branch() latches: a later explore() does not switch exploration back on", v.clone());
                    }
                    let dropped = vec![(t, i), (t, sk + 1), (t, j + 2)];
                    for o in r2.outcomes.iter().map(|o| project(o, &dropped)) {
                        if !full.outcomes.contains(&o) {
                            push(&mut res, "restricted_not_subset", format!("{} {}", name, fmt_outcome(&o)), "subset of the unrestricted result set", "extra outcome".into());
                        }
                    }
                    res.traces_validated += r2.iters;
                }
            }
        }
        for sk in 0..=hi {
            for j in sk..=hi {
                let q = crate::families::insert_op(p, t, j, K::Explore.into());
                let q = crate::families::insert_op(&q, t, sk, K::SkipBranch.into());
                let mut c2 = cfg.clone();
                c2.expect_explicit_explore = true;
                let (s2, r2) = run_ctl(&q, &c2);
                variants += 1;
                res.loom_iterations += r2.iters;
                let name = format!("T{} explicit skip@{} explore@{}", t, sk, j);
                if s2.verdict != Verdict::Ok {
                    push(&mut res, "control_verdict", name.clone(), "Ok", s2.verdict.short());
                    continue;
                }
                if let Some(v) = &r2.viol {
                    push(&mut res, "explored_inside_region", name.clone(), "skip_branch() latches: a later explore() does not switch exploration back on", v.clone());
                }
                res.traces_validated += r2.iters;
            }
        }
    }

    // (a4) regions that involve two threads. The flag belongs to the execution, not to a thread:
    // a region a child opens and never closes lasts until the end of the execution (also after
    // that child finished); a region main opens before spawning may be closed by a child, and a
    // region a child opens may be closed by main after the joins.
    {
        let main_end = p.threads[0].len();
        let mut cross: Vec<(Program, String)> = vec![];
        for t in 1..k.min(3) {
            for i in 0..=p.threads[t].len() {
                cross.push((crate::families::insert_op(p, t, i, K::StopExploring.into()), format!("T{} stop@{} never closed", t, i)));
                let q = crate::families::insert_op(p, 0, main_end, K::Explore.into());
                cross.push((crate::families::insert_op(&q, t, i, K::StopExploring.into()), format!("T{} stop@{} main explore@end", t, i)));
                let q = crate::families::insert_op(p, t, i, K::Explore.into());
                cross.push((crate::families::insert_op(&q, 0, 0, K::StopExploring.into()), format!("main stop@0 T{} explore@{}", t, i)));
            }
        }
        for (q, name) in cross {
            let (s2, r2) = run_ctl(&q, &cfg);
            variants += 1;
            res.loom_iterations += r2.iters;
            if s2.verdict != Verdict::Ok {
                push(&mut res, "control_verdict", name.clone(), "Ok", format!("{} ({})", s2.verdict.short(), s2.message.lines().next().unwrap_or("")));
                continue;
            }
            if let Some(v) = &r2.viol {
                push(&mut res, "explored_inside_region", name.clone(), "the region is a property of the execution: it is opened and closed by whichever thread makes the call, and stays open if nobody closes it", v.clone());
            }
            res.traces_validated += r2.iters;
        }
    }

    // (b) every max_branches from 1 to one above the exact need (whichever kind of decision -
    // schedule, load, spurious - is the one that crosses the limit)
    for (mb, want_ok) in (1..=b + 1).map(|mb| (mb, mb >= b)) {
        let mut c2 = cfg.clone();
        c2.max_branches = mb;
        let (s2, r2) = run_ctl(p, &c2);
        variants += 1;
        res.loom_iterations += r2.iters;
        let ok = if want_ok { s2.verdict == Verdict::Ok && r2.outcomes == full.outcomes } else { s2.verdict == Verdict::BranchLimit };
        if !ok {
            push(&mut res, "max_branches", format!("longest path {} max_branches {}", b, mb), if want_ok { "Ok with the full result set" } else { "panic: Model exceeded maximum number of branches" }, format!("{} ({})", s2.verdict.short(), s2.message.lines().next().unwrap_or("")));
        } else {
            res.traces_validated += 1;
        }
    }
    // (c) max_threads around the exact need
    for mt in [k - 1, k, k + 1] {
        if mt == 0 || mt > 5 {
            continue;
        }
        let mut c2 = cfg.clone();
        c2.max_threads = mt;
        let (s2, r2) = run_ctl(p, &c2);
        variants += 1;
        res.loom_iterations += r2.iters;
        let ok = if mt >= k { s2.verdict == Verdict::Ok && r2.outcomes == full.outcomes } else { matches!(s2.verdict, Verdict::LoomInternal(_)) };
        if !ok {
            push(&mut res, "max_threads", format!("threads {} max_threads {}", k, mt), if mt >= k { "Ok with the full result set" } else { "a panic (too many threads)" }, format!("{} ({})", s2.verdict.short(), s2.message.lines().next().unwrap_or("")));
        } else {
            res.traces_validated += 1;
        }
    }
    // (d) max_permutations x checkpoint interval
    let mut ms: Vec<usize> = vec![1, 2, n / 2, n.saturating_sub(1), n, n + 1];
    ms.retain(|m| *m >= 1);
    ms.sort();
    ms.dedup();
    for &m in &ms {
        for c in [1usize, 2, 3, 5] {
            let mut c2 = cfg.clone();
            c2.max_permutations = Some(m);
            c2.checkpoint_interval = Some(c);
            let (s2, r2) = run_ctl(p, &c2);
            variants += 1;
            res.loom_iterations += r2.iters;
            let upper = ((m + c - 1) / c) * c; // first checkpoint boundary at or after the limit
            let lower = n.min(m.saturating_sub(1));
            let it = r2.iters as usize;
            let subset = r2.outcomes.iter().all(|o| full.outcomes.contains(o));
            if s2.verdict != Verdict::Ok || it > upper || it > n || it < lower || !subset || r2.viol.is_some() {
                push(&mut res, "max_permutations", format!("m={} interval={} N={}", m, c, n), "returns normally after between min(N, m-1) and min(N, first boundary >= m) iterations", format!("{} after {} iterations", s2.verdict.short(), it));
            } else {
                res.traces_validated += 1;
            }
        }
    }
    // (e) max_duration: 0 (stop at the first boundary) and one hour (no effect)
    for c in [1usize, 3] {
        for d in [0u64, 3600] {
            let mut c2 = cfg.clone();
            c2.max_duration_s = Some(d);
            c2.checkpoint_interval = Some(c);
            let (s2, r2) = run_ctl(p, &c2);
            variants += 1;
            res.loom_iterations += r2.iters;
            let it = r2.iters as usize;
            let ok = s2.verdict == Verdict::Ok && if d == 0 { it <= c.min(n) && it >= n.min(c - 1) } else { it == n && r2.outcomes == full.outcomes };
            if !ok {
                push(&mut res, "max_duration", format!("duration={}s interval={} N={}", d, c, n), "0 s ends at the first checkpoint boundary without a failure; 1 h changes nothing", format!("{} after {} iterations", s2.verdict.short(), it));
            } else {
                res.traces_validated += 1;
            }
        }
    }
    // (f) both limits at once: whichever is reached first ends the run
    for c in [1usize, 3] {
        for (m, d) in [(1_000_000usize, 0u64), (2usize, 3600u64)] {
            let mut c2 = cfg.clone();
            c2.max_permutations = Some(m);
            c2.max_duration_s = Some(d);
            c2.checkpoint_interval = Some(c);
            let (s2, r2) = run_ctl(p, &c2);
            variants += 1;
            res.loom_iterations += r2.iters;
            let it = r2.iters as usize;
            let ok = s2.verdict == Verdict::Ok
                && if d == 0 {
                    it <= c.min(n) && it >= n.min(c - 1)
                } else {
                    let upper = ((m + c - 1) / c) * c;
                    it <= upper.min(n) && it >= n.min(m - 1)
                };
            if !ok {
                push(&mut res, "max_duration", format!("permutations={} duration={}s interval={} N={}", m, d, c, n), "the limit that is reached first ends the run at the next checkpoint boundary", format!("{} after {} iterations", s2.verdict.short(), it));
            } else {
                res.traces_validated += 1;
            }
        }
    }
    res.sample = json!({"program": p.text(), "iterations": n, "longest_path": b, "threads": k, "variants_run": variants, "outcomes": full.outcomes.len()});
    res
}

// ------------------------------------------------------------------------------------------
// C06: a failing iteration fails the run, and only then (fault enumeration)
// ------------------------------------------------------------------------------------------

fn sentinel_program() -> Program {
    use crate::ir::MO::*;
    // store buffering + a mutex + a channel message: schedule and load branches, 3 threads
    with_main(
        "C06-sentinel",
        Objs { atomics: vec![0, 0], mutexes: 1, chans: 1, ..Default::default() },
        vec![],
        vec![vec![st(0, 1, Rlx), K::Lock { m: 0 }.into(), ld(1, Rlx), K::Unlock { m: 0 }.into(), K::Send { ch: 0, v: 7 }.into()], vec![st(1, 1, Rlx), K::Lock { m: 0 }.into(), ld(0, Rlx), K::Unlock { m: 0 }.into()]],
        vec![K::Recv { ch: 0 }.into()],
        vec![],
    )
}

fn sentinel_expectation() -> &'static Result<SeqReport, String> {
    static CELL: std::sync::OnceLock<Result<SeqReport, String>> = std::sync::OnceLock::new();
    CELL.get_or_init(|| fresh_process_seq(&sentinel_program(), &subject::Cfg::default()))
}

/// Crash points at the branch limit: the program is run with every max_branches from 1 to its
/// exact need + 1; below the need the run must fail with the documented panic (and unwind, not
/// abort, whatever destructors run during the unwind), from the need on it must succeed.
fn eval_c06_limits(job: &Job) -> JobResult {
    let p = &job.program;
    let mut res = JobResult::default();
    let expect = match sentinel_expectation() {
        Ok(e) => e.clone(),
        Err(e) => {
            res.machinery_error = Some(format!("sentinel fresh-process run failed: {}", e));
            return res;
        }
    };
    let (sum, full) = run_ctl(p, &job.cfg);
    res.loom_iterations = full.iters;
    res.verdict = sum.verdict.short();
    if sum.verdict != Verdict::Ok {
        res.violations.push(viol("base_run", sum.verdict.short(), "Ok".into(), sum.message.lines().next().unwrap_or("").to_string(), json!({})));
        return res;
    }
    let b = full.longest;
    res.states = b as u64;
    res.transitions = full.iters;
    res.nontrivial = true;
    for mb in 1..=b + 1 {
        let mut c2 = job.cfg.clone();
        c2.max_branches = mb;
        let (s2, r2) = run_ctl(p, &c2);
        res.loom_iterations += r2.iters;
        let ok = if mb >= b { s2.verdict == Verdict::Ok } else { s2.verdict == Verdict::BranchLimit };
        if !ok {
            res.violations.push(viol("limit_failure_not_propagated", format!("max_branches={} need={}", mb, b), if mb >= b { "Ok".into() } else { "panic: Model exceeded maximum number of branches".into() }, format!("{} ({})", s2.verdict.short(), s2.message.lines().next().unwrap_or("")), json!({})));
            break;
        }
        res.traces_validated += 1;
        let after = seq_report(&sentinel_program(), &subject::Cfg::default());
        if after.sigs != expect.sigs || after.verdict != expect.verdict {
            res.violations.push(viol("next_model_not_clean", format!("max_branches={}", mb), "a later model run in the same process equals its fresh-process run".into(), first_diff(&expect.sigs, &after.sigs), json!({})));
            break;
        }
    }
    res.sample = json!({"program": p.text(), "mode": "every max_branches in 1..=need+1", "need": b, "iterations_unrestricted": full.iters});
    res
}

fn eval_c06(job: &Job) -> JobResult {
    if job.extra.get("mode").and_then(|v| v.as_str()) == Some("limits") {
        return eval_c06_limits(job);
    }
    if job.extra.get("mode").and_then(|v| v.as_str()) == Some("custom") {
        return eval_c06_custom(job);
    }
    let p = &job.program;
    let mut res = JobResult::default();
    let sc = scm::explore(p, scm::Mode::explore(p), SC_MAX_STATES);
    if sc.truncated {
        res.machinery_error = Some("SC machine truncated".into());
        return res;
    }
    res.states = sc.states;
    res.transitions = sc.transitions;
    let bad = sc.bad_kinds();
    res.ref_outcomes = sc.done.len() as u64;
    res.nontrivial = !sc.user_panics.is_empty();
    let expect = match sentinel_expectation() {
        Ok(e) => e.clone(),
        Err(e) => {
            res.machinery_error = Some(format!("sentinel fresh-process run failed: {}", e));
            return res;
        }
    };
    let (sum, col) = run_loom(p, &job.cfg, None);
    res.loom_iterations = col.iters;
    res.verdict = sum.verdict.short();
    res.capped = sum.verdict == Verdict::Capped;
    res.sample = json!({"program": p.text(), "reference_bad": bad, "loom_verdict": res.verdict, "loom_iterations": col.iters, "message": sum.message.lines().next().unwrap_or("")});
    if res.capped {
        return res;
    }
    let v = sum.verdict.short();
    if bad.is_empty() {
        if sum.verdict != Verdict::Ok {
            res.violations.push(viol("failed_without_cause", v.clone(), "Ok: no iteration can fail".into(), sum.message.lines().next().unwrap_or("").to_string(), json!({})));
        } else {
            res.traces_validated += 1;
        }
    } else if bad.contains(&v) {
        res.traces_validated += 1;
        // the payload must carry the text of the failure
        if let Verdict::User(tag) = sum.verdict {
            if !sum.message.contains(&format!("{}{}", subject::USER_TAG, tag)) {
                res.violations.push(viol("payload_lost", v.clone(), "the panic payload of the failing iteration".into(), sum.message.clone(), json!({})));
            }
        }
    } else {
        let kind = if sum.verdict == Verdict::Ok { "failure_swallowed" } else { "wrong_failure" };
        res.violations.push(viol(kind, v.clone(), format!("one of {:?}", bad), sum.message.lines().next().unwrap_or("").to_string(), json!({"reference_witness": sc.witness})));
    }
    // a later model in the same process starts clean
    let after = seq_report(&sentinel_program(), &subject::Cfg::default());
    res.loom_iterations += after.sigs.len() as u64;
    if after.sigs != expect.sigs || after.verdict != expect.verdict {
        res.violations.push(viol("next_model_not_clean", v, "a later model run in the same process equals its fresh-process run".into(), first_diff(&expect.sigs, &after.sigs), json!({})));
    } else {
        res.traces_validated += after.sigs.len() as u64;
    }
    res
}

// ------------------------------------------------------------------------------------------
// C17: thread_local! and lazy_static! semantics
// ------------------------------------------------------------------------------------------

/// Per-iteration oracle over the notes left by initialisers / destructors (see statics.rs)
fn statics_oracle(p: &Program) -> Box<dyn FnMut(&IterData) -> Option<Viol>> {
    let p = p.clone();
    let mut hist = history_oracle(&p);
    Box::new(move |it: &IterData| {
        if let Some(v) = hist(it) {
            return Some(v);
        }
        if !it.complete() {
            return None;
        }
        let bad = |what: String| Some(viol("statics", what.clone(), "thread-local / lazy-static semantics".into(), format!("iteration {}: notes {:?}", it.index, it.notes), json!({})));
        let nt = p.threads.len();
        // which (thread, key id) pairs are touched
        let kid = |flav: bool, k: usize| (k + if flav { 2 } else { 0 }) as u64;
        for t in 0..nt {
            let mut tls_keys: Vec<u64> = vec![];
            for op in &p.threads[t] {
                match op.k {
                    K::TlsWith { k } => tls_keys.push(kid(p.objs.tls[k], k)),
                    K::TlsNested { k, k2 } => {
                        tls_keys.push(kid(p.objs.tls[k], k));
                        tls_keys.push(kid(p.objs.tls[k2], k2));
                    }
                    _ => {}
                }
            }
            for id in 0..4u64 {
                let inits = it.notes.iter().filter(|n| n.0 == 10 && n.1 == id && n.2 == t as u64).count();
                let drops: Vec<&(u8, u64, u64)> = it.notes.iter().filter(|n| n.0 == 11 && n.1 == id && n.2 % 100 == t as u64).collect();
                let want = tls_keys.contains(&id) as usize;
                if inits != want {
                    return bad(format!("thread-local initialised {} times by a thread that {} it", inits, if want == 1 { "accesses" } else { "never touches" }));
                }
                if drops.len() != want {
                    return bad(format!("thread-local value dropped {} times on its owner (initialised {} times)", drops.len(), inits));
                }
                // dropped after the owner's last op
                if let Some(d) = drops.first() {
                    let at = d.2 / 100;
                    let last = it.history.iter().rposition(|h| h.0 as usize == t).map(|x| x as u64 + 1).unwrap_or(0);
                    if at < last {
                        return bad("thread-local dropped before its thread finished".to_string());
                    }
                }
            }
        }
        // a drop note whose thread never initialised the key = dropped on the wrong thread
        for n in it.notes.iter().filter(|n| n.0 == 11) {
            let t = n.2 % 100;
            if !it.notes.iter().any(|m| m.0 == 10 && m.1 == n.1 && m.2 == t) {
                return bad("thread-local dropped on a thread that does not own it".to_string());
            }
        }
        if it.notes.iter().any(|n| n.0 == 13 && n.2 != 0) {
            return bad("thread-local value of another thread observed".to_string());
        }
        if it.notes.iter().any(|n| n.0 == 12 && n.2 != 1) {
            return bad("try_with on a destroyed key did not report AccessError".to_string());
        }
        // lazy statics
        let mut lazy_keys: Vec<u64> = vec![];
        for op in p.threads.iter().flatten() {
            if let K::LazyGet { k } = op.k {
                lazy_keys.push(kid(p.objs.lazies[k], k));
            }
        }
        for id in 0..4u64 {
            let inits = it.notes.iter().filter(|n| n.0 == 20 && n.1 == id).count();
            let drops = it.notes.iter().filter(|n| n.0 == 21 && n.1 == id).count();
            let want = lazy_keys.contains(&id) as usize;
            if inits != want {
                return bad(format!("lazy static initialised {} times in one execution (accessed: {})", inits, want == 1));
            }
            if drops != inits {
                return bad(format!("lazy static dropped {} times (initialised {})", drops, inits));
            }
            let addrs: std::collections::BTreeSet<u64> = it.notes.iter().filter(|n| n.0 == 22 && n.1 == id).map(|n| n.2).collect();
            if addrs.len() > 1 {
                return bad("threads saw different instances of a lazy static".to_string());
            }
        }
        None
    })
}

/// Hand-written models (statics.rs): nested lazy statics / thread-local initialisers.
fn eval_c17_nesting(job: &Job, which: usize) -> JobResult {
    use std::sync::atomic::Ordering::SeqCst;
    let _ = job;
    let mut res = JobResult::default();
    let ctr = |k: usize| match k {
        0 => crate::statics::OUTER_INITS.load(SeqCst),
        1 => crate::statics::INNER_INITS.load(SeqCst),
        2 => crate::statics::NEST_A_INITS.load(SeqCst),
        _ => crate::statics::NEST_B_INITS.load(SeqCst),
    };
    let before: Vec<usize> = (0..4).map(ctr).collect();
    let iters = std::sync::Arc::new(std::sync::atomic::AtomicUsize::new(0));
    let i2 = iters.clone();
    let mut b = loom::model::Builder::new();
    b.log = false;
    let r = std::panic::catch_unwind(std::panic::AssertUnwindSafe(move || {
        b.check(move || {
            i2.fetch_add(1, SeqCst);
            crate::statics::nesting_model(which);
        })
    }));
    let d: Vec<usize> = (0..4).map(|k| ctr(k) - before[k]).collect();
    let n = iters.load(SeqCst);
    res.loom_iterations = n as u64;
    res.states = n as u64;
    res.transitions = n as u64;
    res.nontrivial = true;
    res.verdict = if r.is_ok() { "Ok".into() } else { "Panic".into() };
    res.sample = json!({"mode": "custom", "model": which, "iterations": n, "outer_inits": d[0], "inner_inits": d[1], "tls_a_inits": d[2], "tls_b_inits": d[3]});
    if let Err(p) = r {
        let msg = p.downcast_ref::<&str>().map(|s| s.to_string()).or_else(|| p.downcast_ref::<String>().cloned()).unwrap_or_default();
        res.violations.push(viol("statics", format!("custom model {}", which), "the model returns normally".into(), msg.lines().next().unwrap_or("").to_string(), json!({})));
        return res;
    }
    let ok = if which != 4 { d[0] == n && d[1] == n } else { d[2] == 2 * n && d[3] == 2 * n };
    if !ok {
        res.violations.push(viol(
            "statics",
            format!("custom model {}", which),
            if which != 4 { format!("{} iterations: OUTER and INNER initialised once per execution", n) } else { format!("{} iterations x 2 threads: A and B initialised once per thread", n) },
            format!("OUTER {} INNER {} A {} B {}", d[0], d[1], d[2], d[3]),
            json!({}),
        ));
    } else {
        res.traces_validated += n as u64;
    }
    res
}

/// Hand-written models (statics.rs): a thread-local first touched during its thread's teardown.
/// C07, hand-written models (statics.rs): a read guard dropped by a panic that the model catches
/// leaves the lock free.
fn eval_c07_custom(job: &Job) -> JobResult {
    let mut res = JobResult::default();
    let which = job.extra["which"].as_u64().unwrap_or(0) as usize;
    let sigs: std::sync::Arc<std::sync::Mutex<Vec<String>>> = Default::default();
    let s2 = sigs.clone();
    let mut b = loom::model::Builder::new();
    b.log = false;
    let r = std::panic::catch_unwind(std::panic::AssertUnwindSafe(move || {
        b.check(move || {
            let sig = crate::statics::rwlock_caught_panic_model(which);
            s2.lock().unwrap_or_else(|e| e.into_inner()).push(sig);
        })
    }));
    let sigs = sigs.lock().unwrap_or_else(|e| e.into_inner()).clone();
    res.loom_iterations = sigs.len() as u64;
    res.states = sigs.len() as u64;
    res.transitions = sigs.len() as u64;
    res.nontrivial = true;
    let distinct: std::collections::BTreeSet<&String> = sigs.iter().collect();
    res.sample = json!({"mode": "custom", "model": which, "iterations": sigs.len(), "signatures": distinct});
    if let Err(p) = r {
        let msg = p.downcast_ref::<&str>().map(|s| s.to_string()).or_else(|| p.downcast_ref::<String>().cloned()).unwrap_or_default();
        res.verdict = subject::classify(&msg).short();
        res.violations.push(viol("lock_after_caught_panic", format!("custom model {}", which), "the model returns normally: the lock is free once the panicking reader's guard is gone".into(), msg.lines().next().unwrap_or("").to_string(), json!({"signatures": distinct})));
        return res;
    }
    res.verdict = "Ok".into();
    if let Some(bad) = sigs.iter().find(|s| !s.starts_with("ok")) {
        res.violations.push(viol("lock_after_caught_panic", format!("custom model {}", which), "every iteration: try_write succeeds / write does not block, the value is the one last written".into(), bad.clone(), json!({"signatures": distinct})));
    } else {
        res.traces_validated += sigs.len() as u64;
    }
    res
}

fn eval_c17_custom(job: &Job) -> JobResult {
    use std::sync::atomic::Ordering::SeqCst;
    let mut res = JobResult::default();
    let which = job.extra["which"].as_u64().unwrap_or(0) as usize;
    if which >= 3 {
        return eval_c17_nesting(job, which);
    }
    let before = [
        crate::statics::EARLY_INITS.load(SeqCst),
        crate::statics::EARLY_DROPS.load(SeqCst),
        crate::statics::LATE_INITS.load(SeqCst),
        crate::statics::LATE_DROPS.load(SeqCst),
    ];
    let iters = std::sync::Arc::new(std::sync::atomic::AtomicUsize::new(0));
    let i2 = iters.clone();
    let mut b = loom::model::Builder::new();
    b.log = false;
    let r = std::panic::catch_unwind(std::panic::AssertUnwindSafe(move || {
        b.check(move || {
            i2.fetch_add(1, SeqCst);
            crate::statics::tls_teardown_model(which);
        })
    }));
    let after = [
        crate::statics::EARLY_INITS.load(SeqCst),
        crate::statics::EARLY_DROPS.load(SeqCst),
        crate::statics::LATE_INITS.load(SeqCst),
        crate::statics::LATE_DROPS.load(SeqCst),
    ];
    let d: Vec<usize> = (0..4).map(|k| after[k] - before[k]).collect();
    let n = iters.load(SeqCst);
    res.loom_iterations = n as u64;
    res.states = n as u64;
    res.transitions = n as u64;
    res.nontrivial = true;
    res.verdict = if r.is_ok() { "Ok".into() } else { "Panic".into() };
    res.sample = json!({"mode": "custom", "model": which, "iterations": n, "early_inits": d[0], "early_drops": d[1], "late_inits": d[2], "late_drops": d[3]});
    if let Err(p) = r {
        let msg = p.downcast_ref::<&str>().map(|s| s.to_string()).or_else(|| p.downcast_ref::<String>().cloned()).unwrap_or_default();
        res.violations.push(viol("statics", format!("custom model {}", which), "the model returns normally".into(), msg.lines().next().unwrap_or("").to_string(), json!({})));
        return res;
    }
    let users = if which == 2 { 2 } else { 1 };
    // one EARLY per using thread and iteration, one LATE created by each EARLY destructor, and
    // everything that was initialised is dropped exactly once by the time the model has returned
    if d[0] != users * n || d[1] != d[0] || d[2] != d[0] || d[3] != d[2] {
        res.violations.push(viol(
            "statics",
            format!("custom model {}", which),
            format!("{} iterations x {} thread(s): EARLY and LATE each initialised and dropped {} times", n, users, users * n),
            format!("EARLY {} inits / {} drops, LATE {} inits / {} drops", d[0], d[1], d[2], d[3]),
            json!({}),
        ));
    } else {
        res.traces_validated += n as u64;
    }
    res
}

fn eval_c17(job: &Job) -> JobResult {
    if job.extra.get("mode").and_then(|v| v.as_str()) == Some("custom") {
        return eval_c17_custom(job);
    }
    let p = &job.program;
    let mut res = JobResult::default();
    let sc = scm::explore(p, scm::Mode::explore(p), SC_MAX_STATES);
    if sc.truncated {
        res.machinery_error = Some("SC machine truncated".into());
        return res;
    }
    res.states = sc.states;
    res.transitions = sc.transitions;
    res.ref_outcomes = sc.done.len() as u64;
    res.nontrivial = sc.done.len() >= 2 || p.threads.len() >= 3;
    let c = Collect { per_iter: Some(statics_oracle(p)), max_iter_viols: 16, ..Default::default() };
    let (sum, col) = subject::run(p, &job.cfg, c);
    res.loom_iterations = col.iters;
    res.loom_outcomes = col.outcomes.len() as u64;
    res.verdict = sum.verdict.short();
    res.capped = sum.verdict == Verdict::Capped;
    res.traces_validated = col.accepted;
    res.sample = json!({"program": p.text(), "reference_outcomes": outs_json(sc.done.iter()), "loom_outcomes": outs_json(col.outcomes.keys()), "loom_verdict": res.verdict, "loom_iterations": col.iters});
    if let Some(v) = col.iter_viols.iter().min_by(|a, b| (a.kind.clone(), a.detail.clone()).cmp(&(b.kind.clone(), b.detail.clone()))) {
        res.violations.push(v.clone());
    }
    if res.capped {
        return res;
    }
    if sum.verdict != Verdict::Ok {
        let kind = if sum.verdict == Verdict::Race { "false_race" } else { "unexpected_verdict" };
        res.violations.push(viol(kind, sum.verdict.short(), "Ok".into(), sum.message.lines().next().unwrap_or("").to_string(), json!({})));
        return res;
    }
    // Which thread initialises a static first is only compared in the sound direction: the
    // property does not promise that every order of first accesses is explored (a plain
    // initialiser contains no scheduling point).
    for o in col.outcomes.keys() {
        if sc.done.contains(o) {
            res.traces_validated += 1;
        }
        if !sc.done.contains(o) {
            res.violations.push(viol("extra_outcome", fmt_outcome(o), "initialised once per thread / per execution".into(), "".into(), json!({})));
        }
    }
    res
}

// ------------------------------------------------------------------------------------------
// C18: spin loops that yield make progress and lose no exit outcome
// ------------------------------------------------------------------------------------------

fn eval_c18(job: &Job) -> JobResult {
    let p = &job.program;
    if !rc11::supported(p) {
        // spin loops mixed with blocking primitives: the SC machine (the loop is a blocking read
        // of a write-once flag) decides progress and outcomes
        return eval_conf(job);
    }
    let mut res = JobResult::default();
    let rc = rc11::enumerate(p, Variant::Rc11, RC_MAX_STATES);
    let rcm = if p.has_sc_access() { rc11::enumerate(p, Variant::Rc11Minus, RC_MAX_STATES) } else { rc.clone() };
    if rc.truncated || rcm.truncated {
        res.machinery_error = Some("RC11 enumerator truncated".into());
        return res;
    }
    res.states = rc.states;
    res.transitions = rc.transitions;
    res.ref_outcomes = rc.outcomes.len() as u64;
    // the loop may stay unsatisfied in some consistent execution (under either reading of SeqCst)
    let unsat = rc.stuck || rcm.stuck;
    if rc.stuck != rcm.stuck {
        res.dont_care = true;
        return res;
    }
    res.nontrivial = unsat || rc.outcomes.len() >= 2;
    let (sum, col) = run_loom(p, &job.cfg, None);
    res.loom_iterations = col.iters;
    res.loom_outcomes = col.outcomes.len() as u64;
    res.verdict = sum.verdict.short();
    res.capped = sum.verdict == Verdict::Capped;
    res.sample = json!({"program": p.text(), "loop_can_stay_unsatisfied": unsat, "rc11": outs_json(rc.outcomes.iter()), "loom_outcomes": outs_json(col.outcomes.keys()), "loom_verdict": res.verdict, "loom_iterations": col.iters});
    if res.capped {
        return res;
    }
    let msg = sum.message.lines().next().unwrap_or("").to_string();
    if unsat {
        if sum.verdict == Verdict::BranchLimit {
            res.traces_validated += 1;
        } else {
            res.violations.push(viol("unsatisfiable_loop_not_reported", sum.verdict.short(), "panic: Model exceeded maximum number of branches".into(), msg, json!({})));
        }
        return res;
    }
    if sum.verdict != Verdict::Ok {
        res.violations.push(viol("no_progress", sum.verdict.short(), "Ok: the awaited store happens in every execution".into(), msg, json!({})));
        return res;
    }
    // attribution (for the known-findings list): is the outcome also missing from RC11 with
    // loom's progress rule "a store read before the last yield is not read again once a newer
    // one exists" (D24)?
    let mut restricted: Option<rc11::Rc11Result> = None;
    for o in &rc.outcomes {
        if col.outcomes.contains_key(o) {
            res.traces_validated += 1;
        } else {
            let r = restricted.get_or_insert_with(|| rc11::enumerate(p, Variant::Rc11YieldFilter, RC_MAX_STATES));
            let attr = if !r.truncated && !r.outcomes.contains(o) { "store-read-before-yield-not-read-again" } else { "unattributed" };
            res.violations.push(viol("missing_outcome", fmt_outcome(o), "every exit value / continuation allowed by RC11 is explored".into(), format!("{} iterations, {} outcomes", col.iters, col.outcomes.len()), json!({"loom_outcomes": outs_json(col.outcomes.keys()), "attribution": attr})));
        }
    }
    for (o, (first, n)) in &col.outcomes {
        if rcm.outcomes.contains(o) {
            res.traces_validated += *n;
        } else {
            res.violations.push(viol("extra_outcome", fmt_outcome(o), "every explored execution is RC11-consistent".into(), format!("first in iteration {}", first), json!({})));
        }
    }
    res
}
