//! Per-job evaluation (runs inside a worker process): reference side, subject side, oracle.

use crate::ir::*;
use crate::pool::{Job, JobResult, Viol};
use crate::rc11::{self, Variant};
use crate::scm;
use crate::subject::{self, IterData, IterSink, Verdict};
use serde_json::json;
use std::collections::BTreeMap;

pub const SC_MAX_STATES: u64 = 3_000_000;
pub const RC_MAX_STATES: u64 = 3_000_000;

/// Collects what loom did for one program.
#[derive(Default)]
pub struct Collect {
    /// complete outcomes -> (first iteration index, count)
    pub outcomes: BTreeMap<Outcome, (usize, u64)>,
    pub incomplete: u64,
    pub iters: u64,
    /// optional per-iteration oracle; returns a violation
    pub per_iter: Option<Box<dyn FnMut(&IterData) -> Option<Viol>>>,
    pub iter_viols: Vec<Viol>,
    pub accepted: u64,
    pub max_iter_viols: usize,
}

impl IterSink for Collect {
    fn on_iter(&mut self, it: &IterData) {
        self.iters += 1;
        if it.complete() {
            let e = self.outcomes.entry(it.results.clone()).or_insert((it.index, 0));
            e.1 += 1;
        } else {
            self.incomplete += 1;
        }
        if let Some(f) = self.per_iter.as_mut() {
            match f(it) {
                None => self.accepted += 1,
                Some(v) => {
                    if self.iter_viols.len() < self.max_iter_viols.max(1) && !self.iter_viols.iter().any(|x| x.kind == v.kind && x.detail == v.detail) {
                        self.iter_viols.push(v);
                    }
                }
            }
        }
    }
}

pub fn run_loom(p: &Program, cfg: &subject::Cfg, per_iter: Option<Box<dyn FnMut(&IterData) -> Option<Viol>>>) -> (subject::RunSummary, Collect) {
    let c = Collect { per_iter, max_iter_viols: 8, ..Default::default() };
    subject::run(p, cfg, c)
}

fn outs_json<'a>(it: impl Iterator<Item = &'a Outcome>) -> serde_json::Value {
    json!(it.map(fmt_outcome).collect::<Vec<_>>())
}

pub fn eval(job: &Job) -> JobResult {
    let mut r = match job.check.as_str() {
        "C01" => eval_c01(job),
        "C02" | "C03" => eval_c02_c03(job),
        "C04" => eval_c04(job),
        "C05" => eval_c05(job),
        "C07" | "C08" | "C09" | "C10" | "C11" => eval_conf(job),
        other => JobResult { machinery_error: Some(format!("unknown check {}", other)), ..Default::default() },
    };
    r.id = job.id.clone();
    r
}

fn viol(kind: &str, detail: String, expected: String, observed: String, witness: serde_json::Value) -> Viol {
    Viol { kind: kind.to_string(), detail, expected, observed, witness }
}

/// More than 6 stores (7 with the initial value) to one location: outside C02's proviso.
pub fn history_overflow(p: &Program) -> bool {
    let mut cnt = vec![1usize; p.objs.atomics.len()];
    for op in p.threads.iter().flatten() {
        match op.k {
            K::Store { a, .. } | K::Swap { a, .. } | K::FetchAdd { a, .. } | K::Cas { a, .. } => cnt[a] += 1,
            _ => {}
        }
    }
    cnt.iter().any(|&c| c >= 7)
}

// ------------------------------------------------------------------------------------------
// C01: every interleaving outcome is explored
// ------------------------------------------------------------------------------------------

fn eval_c01(job: &Job) -> JobResult {
    let p = &job.program;
    let mut res = JobResult::default();
    let sc = scm::explore(p, scm::Mode::explore(p), SC_MAX_STATES);
    if sc.truncated {
        res.machinery_error = Some("SC machine truncated".into());
        return res;
    }
    res.states = sc.states;
    res.transitions = sc.transitions;
    let bad = sc.bad_kinds();
    res.ref_outcomes = sc.done.len() as u64;
    res.nontrivial = sc.done.len() >= 2 || !bad.is_empty();
    let (sum, col) = run_loom(p, &job.cfg, None);
    res.loom_iterations = col.iters;
    res.loom_outcomes = col.outcomes.len() as u64;
    res.verdict = sum.verdict.short();
    res.capped = sum.verdict == Verdict::Capped;
    res.sample = json!({"program": p.text(), "reference_outcomes": outs_json(sc.done.iter()), "reference_bad": bad, "loom_outcomes": outs_json(col.outcomes.keys()), "loom_verdict": res.verdict, "loom_iterations": col.iters});
    if res.capped {
        return res;
    }
    if bad.is_empty() {
        if sum.verdict != Verdict::Ok {
            res.violations.push(viol("unexpected_verdict", sum.verdict.short(), "Ok".into(), sum.message.lines().next().unwrap_or("").to_string(), json!({})));
            return res;
        }
        for o in &sc.done {
            if col.outcomes.contains_key(o) {
                res.traces_validated += 1;
            } else {
                res.violations.push(viol("missing_outcome", fmt_outcome(o), "some iteration produces this interleaving outcome".into(), format!("{} iterations, {} outcomes", col.iters, col.outcomes.len()), json!({"loom_outcomes": outs_json(col.outcomes.keys())})));
            }
        }
    } else if bad.len() == 1 && bad.contains("Deadlock") {
        if sum.verdict != Verdict::Deadlock {
            res.violations.push(viol("missed_deadlock", sum.verdict.short(), "Deadlock".into(), sum.message.lines().next().unwrap_or("").to_string(), json!({"reference_witness": sc.witness.get("deadlock")})));
        } else {
            res.traces_validated += 1;
        }
    } else {
        res.dont_care = true;
    }
    res
}

// ------------------------------------------------------------------------------------------
// C02 / C03: weak-memory completeness and soundness against RC11
// ------------------------------------------------------------------------------------------

fn eval_c02_c03(job: &Job) -> JobResult {
    let p = &job.program;
    let mut res = JobResult::default();
    if !rc11::supported(p) {
        res.machinery_error = Some("program not supported by the RC11 engine".into());
        return res;
    }
    let rc = rc11::enumerate(p, Variant::Rc11, RC_MAX_STATES);
    let rcm = if p.has_sc_access() { rc11::enumerate(p, Variant::Rc11Minus, RC_MAX_STATES) } else { rc.clone() };
    if rc.truncated || rcm.truncated {
        res.machinery_error = Some("RC11 enumerator truncated".into());
        return res;
    }
    res.states = rc.states + if p.has_sc_access() { rcm.states } else { 0 };
    res.transitions = rc.transitions + if p.has_sc_access() { rcm.transitions } else { 0 };
    res.ref_outcomes = rc.outcomes.len() as u64;
    res.nontrivial = rc.outcomes.len() >= 2;
    if rc.race || rcm.race || rc.stuck || rcm.stuck {
        res.dont_care = true;
        return res;
    }
    let (sum, col) = run_loom(p, &job.cfg, None);
    res.loom_iterations = col.iters;
    res.loom_outcomes = col.outcomes.len() as u64;
    res.verdict = sum.verdict.short();
    res.capped = sum.verdict == Verdict::Capped;
    res.sample = json!({"program": p.text(), "rc11": outs_json(rc.outcomes.iter()), "rc11_minus_extra": outs_json(rcm.outcomes.difference(&rc.outcomes)), "loom_outcomes": outs_json(col.outcomes.keys()), "loom_verdict": res.verdict, "loom_iterations": col.iters});
    if job.check == "C02" {
        if res.capped || history_overflow(p) {
            res.dont_care = true;
            return res;
        }
        if sum.verdict != Verdict::Ok {
            res.violations.push(viol("exploration_aborted", sum.verdict.short(), "Ok".into(), sum.message.lines().next().unwrap_or("").to_string(), json!({})));
            return res;
        }
        for o in &rc.outcomes {
            if col.outcomes.contains_key(o) {
                res.traces_validated += 1;
            } else {
                res.violations.push(viol("missing_outcome", fmt_outcome(o), "RC11-consistent outcome (po ∪ rf acyclic) is produced by some iteration".into(), format!("{} iterations, {} outcomes", col.iters, col.outcomes.len()), json!({"loom_outcomes": outs_json(col.outcomes.keys())})));
            }
        }
    } else {
        // C03: every complete iteration's outcome must be RC11⁻-consistent
        for (o, (first, n)) in &col.outcomes {
            if rcm.outcomes.contains(o) {
                res.traces_validated += *n;
            } else {
                res.violations.push(viol("extra_outcome", fmt_outcome(o), "every iteration is RC11-consistent (SeqCst accesses may be acq/rel)".into(), format!("first in iteration {}, {} iterations", first, n), json!({"rc11_minus": outs_json(rcm.outcomes.iter())})));
            }
        }
    }
    res
}

// ------------------------------------------------------------------------------------------
// C05: deadlocks are reported exactly
// ------------------------------------------------------------------------------------------

fn eval_c05(job: &Job) -> JobResult {
    let p = &job.program;
    let mut res = JobResult::default();
    let sc = scm::explore(p, scm::Mode::explore(p), SC_MAX_STATES);
    if sc.truncated {
        res.machinery_error = Some("SC machine truncated".into());
        return res;
    }
    res.states = sc.states;
    res.transitions = sc.transitions;
    let bad = sc.bad_kinds();
    res.ref_outcomes = sc.done.len() as u64;
    res.nontrivial = !sc.deadlocks.is_empty();
    let (sum, col) = run_loom(p, &job.cfg, None);
    res.loom_iterations = col.iters;
    res.loom_outcomes = col.outcomes.len() as u64;
    res.verdict = sum.verdict.short();
    res.capped = sum.verdict == Verdict::Capped;
    res.sample = json!({"program": p.text(), "reference_deadlock_states": sc.deadlocks.len(), "reference_bad": bad, "loom_verdict": res.verdict, "loom_iterations": col.iters});
    if res.capped {
        return res;
    }
    let other_bad = bad.iter().any(|k| k != "Deadlock");
    if other_bad {
        res.dont_care = true;
        return res;
    }
    let msg = sum.message.lines().next().unwrap_or("").to_string();
    if sc.deadlocks.is_empty() {
        if sum.verdict != Verdict::Ok {
            let kind = if sum.verdict == Verdict::Deadlock { "false_deadlock" } else { "unexpected_verdict" };
            res.violations.push(viol(kind, sum.verdict.short(), "Ok".into(), msg, json!({})));
        } else {
            res.traces_validated += 1;
        }
    } else if sum.verdict != Verdict::Deadlock {
        res.violations.push(viol("missed_deadlock", sum.verdict.short(), "Deadlock".into(), msg, json!({"reference_witness": sc.witness.get("deadlock")})));
    } else {
        res.traces_validated += 1;
    }
    res
}

// ------------------------------------------------------------------------------------------
// Conformance checks (C07 C08 C09 C11 C04-sync): every iteration's history is accepted by the
// reference automaton, the outcome sets are equal, and the verdicts agree.
// ------------------------------------------------------------------------------------------

pub fn history_oracle(p: &Program) -> Box<dyn FnMut(&IterData) -> Option<Viol>> {
    let p = p.clone();
    let mut ok_cache: std::collections::HashSet<crate::accept::History> = Default::default();
    let mut bad_cache: std::collections::HashSet<crate::accept::History> = Default::default();
    Box::new(move |it: &IterData| {
        if ok_cache.contains(&it.history) {
            return None;
        }
        let mk = |h: &crate::accept::History, idx: usize| viol("history_rejected", crate::accept::fmt_history(h), "the completion history is a behaviour of the reference automaton".into(), format!("iteration {}", idx), json!({}));
        if bad_cache.contains(&it.history) {
            return Some(mk(&it.history, it.index));
        }
        let (ok, _) = crate::accept::accepts(&p, &it.history);
        if ok {
            ok_cache.insert(it.history.clone());
            None
        } else {
            bad_cache.insert(it.history.clone());
            Some(mk(&it.history, it.index))
        }
    })
}

fn eval_conf(job: &Job) -> JobResult {
    let p = &job.program;
    let mut res = JobResult::default();
    let sc = scm::explore(p, scm::Mode::explore(p), SC_MAX_STATES);
    if sc.truncated {
        res.machinery_error = Some("SC machine truncated".into());
        return res;
    }
    res.states = sc.states;
    res.transitions = sc.transitions;
    let bad = sc.bad_kinds();
    res.ref_outcomes = sc.done.len() as u64;
    res.nontrivial = sc.done.len() >= 2 || !bad.is_empty();
    let mut c = Collect { per_iter: Some(history_oracle(p)), max_iter_viols: 64, ..Default::default() };
    c.iters = 0;
    let (sum, col) = subject::run(p, &job.cfg, c);
    res.loom_iterations = col.iters;
    res.loom_outcomes = col.outcomes.len() as u64;
    res.verdict = sum.verdict.short();
    res.capped = sum.verdict == Verdict::Capped;
    res.traces_validated = col.accepted;
    res.sample = json!({"program": p.text(), "reference_outcomes": outs_json(sc.done.iter()), "reference_bad": bad, "loom_outcomes": outs_json(col.outcomes.keys()), "loom_verdict": res.verdict, "loom_iterations": col.iters, "histories_accepted": col.accepted});
    // per-iteration: report the smallest rejected history (stable under reordering of iterations)
    if let Some(v) = col.iter_viols.iter().min_by(|a, b| a.detail.cmp(&b.detail)) {
        let mut v = v.clone();
        v.witness = json!({"rejected_histories": col.iter_viols.iter().map(|x| x.detail.clone()).collect::<Vec<_>>()});
        res.violations.push(v);
    }
    if res.capped {
        return res;
    }
    let msg = sum.message.lines().next().unwrap_or("").to_string();
    if bad.is_empty() {
        if sum.verdict != Verdict::Ok {
            let kind = match sum.verdict {
                Verdict::Deadlock => "false_deadlock",
                Verdict::Race => "false_race",
                Verdict::Leak(_) => "false_leak",
                _ => "unexpected_verdict",
            };
            res.violations.push(viol(kind, sum.verdict.short(), "Ok".into(), msg, json!({})));
            return res;
        }
        for o in &sc.done {
            if col.outcomes.contains_key(o) {
                res.traces_validated += 1;
            } else {
                res.violations.push(viol("missing_outcome", fmt_outcome(o), "L(P) = R(P)".into(), format!("{} iterations, {} outcomes", col.iters, col.outcomes.len()), json!({"loom_outcomes": outs_json(col.outcomes.keys())})));
            }
        }
        for o in col.outcomes.keys() {
            if !sc.done.contains(o) {
                res.violations.push(viol("extra_outcome", fmt_outcome(o), "L(P) = R(P)".into(), format!("first in iteration {}", col.outcomes[o].0), json!({"reference_outcomes": outs_json(sc.done.iter())})));
            }
        }
    } else {
        let v = sum.verdict.short();
        if bad.contains(&v) {
            res.traces_validated += 1;
        } else {
            let kind = if bad.len() == 1 {
                match bad.iter().next().unwrap().as_str() {
                    "Deadlock" => "missed_deadlock",
                    "Race" => "missed_race",
                    k if k.starts_with("Leak") => "missed_leak",
                    _ => "wrong_verdict",
                }
            } else {
                "wrong_verdict"
            };
            res.violations.push(viol(kind, v, format!("{:?}", bad), msg, json!({"reference_witness": sc.witness})));
        }
    }
    res
}

// ------------------------------------------------------------------------------------------
// C04: data races are reported exactly
// ------------------------------------------------------------------------------------------

fn eval_c04(job: &Job) -> JobResult {
    let p = &job.program;
    let mut res = JobResult::default();
    let expected_race: bool;
    let mut other_bad = false;
    let mut refinfo = json!({});
    if rc11::supported(p) {
        let rc = rc11::enumerate(p, Variant::Rc11, RC_MAX_STATES);
        let rcm = if p.has_sc_access() { rc11::enumerate(p, Variant::Rc11Minus, RC_MAX_STATES) } else { rc.clone() };
        if rc.truncated || rcm.truncated {
            res.machinery_error = Some("RC11 enumerator truncated".into());
            return res;
        }
        res.states = rc.states;
        res.transitions = rc.transitions;
        res.ref_outcomes = rc.outcomes.len() as u64;
        if rc.race != rcm.race || rc.stuck {
            res.dont_care = true;
            return res;
        }
        expected_race = rc.race;
        refinfo = json!({"engine": "rc11", "consistent_executions": rc.consistent, "racy_outcomes": outs_json(rc.racy_outcomes.iter())});
    } else {
        let sc = scm::explore(p, scm::Mode { hb: true, any_waiter: false, spurious: true }, SC_MAX_STATES);
        if sc.truncated {
            res.machinery_error = Some("SC machine truncated".into());
            return res;
        }
        res.states = sc.states;
        res.transitions = sc.transitions;
        res.ref_outcomes = sc.done.len() as u64;
        expected_race = sc.race;
        other_bad = sc.bad_kinds().iter().any(|k| k != "Race");
        refinfo = json!({"engine": "sc+hb", "bad": sc.bad_kinds(), "race_witness": sc.witness.get("race")});
    }
    res.nontrivial = expected_race;
    let (sum, col) = run_loom(p, &job.cfg, None);
    res.loom_iterations = col.iters;
    res.verdict = sum.verdict.short();
    res.capped = sum.verdict == Verdict::Capped;
    res.sample = json!({"program": p.text(), "reference": refinfo, "expected_race": expected_race, "loom_verdict": res.verdict, "loom_iterations": col.iters});
    if res.capped {
        return res;
    }
    let msg = sum.message.lines().next().unwrap_or("").to_string();
    if other_bad {
        // several kinds of bad executions: loom may report any of them
        res.dont_care = true;
        return res;
    }
    if expected_race {
        if sum.verdict == Verdict::Race {
            res.traces_validated += 1;
        } else {
            res.violations.push(viol("missed_race", sum.verdict.short(), "Race".into(), msg, refinfo));
        }
    } else if sum.verdict == Verdict::Ok {
        res.traces_validated += 1;
    } else {
        let kind = if sum.verdict == Verdict::Race { "false_race" } else { "unexpected_verdict" };
        res.violations.push(viol(kind, sum.verdict.short(), "Ok".into(), msg, refinfo));
    }
    res
}
