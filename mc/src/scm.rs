//! SC machine: explicit-state reference semantics for the sync primitives.
//!
//! Boring by design: one atomic step of one enabled thread per transition, exhaustive DFS with a
//! visited set on the full state, no reduction of any kind. Atomics have one value (SC).
//! Happens-before vector clocks are carried only for programs with cells (race verdict).

use crate::ir::*;
use std::collections::{BTreeMap, BTreeSet, HashSet, VecDeque};

pub const MAXT: usize = 5;
pub type VC = [u8; MAXT];

fn vjoin(a: &mut VC, b: &VC) {
    for i in 0..MAXT {
        if b[i] > a[i] {
            a[i] = b[i];
        }
    }
}
fn vleq(a: &VC, b: &VC) -> bool {
    (0..MAXT).all(|i| a[i] <= b[i])
}

#[derive(Clone, Copy, PartialEq, Eq, Hash, Debug)]
pub enum Status {
    NotStarted,
    Ready,
    /// in `Condvar::wait` after step A: (cv, mutex, notified)
    InWait(u8, u8, bool),
    /// in a `while !cond { wait }` op: the condition was read as false, the wait call is next
    LoopDecided,
    /// in `AwaitSpun`: a load has returned another value, the loop is spinning
    Spun,
    /// the closure returned; thread-local destructors still to run
    Returned,
    Done,
}

#[derive(Clone, PartialEq, Eq, Hash, Debug)]
pub struct Th {
    pub pc: usize,
    pub status: Status,
    pub tok: bool,
    pub results: Vec<Res>,
    pub vc: VC,
    /// clock handed over by unpark / notify
    pub inbox: VC,
    /// thread-local slots: 0 = untouched, 1 = live, 2 = destroyed
    pub tls: Vec<u8>,
}

#[derive(Clone, PartialEq, Eq, Hash, Debug, Default)]
pub struct CellSt {
    pub w: VC,
    pub r: VC,
    /// open read accesses per thread / the thread with an open write access
    pub rd_held: [u8; MAXT],
    pub wr_held: Option<u8>,
}

#[derive(Clone, PartialEq, Eq, Hash, Debug)]
pub struct St {
    pub th: Vec<Th>,
    pub atomics: Vec<u64>,
    pub mowner: Vec<Option<u8>>,
    pub mrel: Vec<VC>,
    /// the protected values (mutexes, rwlocks)
    pub mval: Vec<u64>,
    pub rwval: Vec<u64>,
    pub rww: Vec<Option<u8>>,
    pub rwr: Vec<u8>,
    pub rwrel: Vec<VC>,
    pub cvq: Vec<Vec<u8>>,
    pub nflag: Vec<bool>,
    pub ncredit: Vec<bool>,
    pub nrel: Vec<VC>,
    pub chan: Vec<VecDeque<(u64, VC)>>,
    pub rx_alive: Vec<bool>,
    pub rx_forgotten: Vec<bool>,
    pub handle: Vec<Option<u8>>,
    pub arc_cnt: Vec<u32>,
    pub arc_drops: Vec<u32>,
    pub arel: Vec<VC>,
    /// 0 none, 1 live, 2 released, 3 forgotten
    pub tracks: Vec<u8>,
    pub allocs: Vec<u8>,
    pub cells: Vec<CellSt>,
    /// lazy statics: 0 = uninitialised, 1 = initialised
    pub lazy: Vec<u8>,
    pub lrel: Vec<VC>,
    pub lazy_inits: Vec<u8>,
    pub raced: bool,
    /// an access started while a conflicting access was still open
    pub overlapped: bool,
    pub user_panic: Option<u64>,
    /// the step that produced this state was a spurious return of `Notify::wait` (such steps do
    /// not count as progress: loom also explores the execution in which the wake-up never comes)
    pub via_spurious: bool,
    /// the thread that took that spurious return (255: none)
    pub spur_by: u8,
}

#[derive(Clone, Copy, PartialEq, Eq, Debug)]
pub struct Mode {
    /// keep vector clocks and detect races on cells
    pub hb: bool,
    /// `notify_one` may wake any waiter (conformance acceptor) instead of the oldest
    pub any_waiter: bool,
    /// `sync::Notify` objects have one spurious credit
    pub spurious: bool,
    /// attribution variant (defect D20): the thread that took a spurious return yields, i.e. it
    /// does not take the next step while another thread can
    pub spur_yield: bool,
}

impl Mode {
    pub fn explore(p: &Program) -> Mode {
        Mode { hb: p.objs.cells > 0, any_waiter: false, spurious: true, spur_yield: false }
    }
}

impl St {
    pub fn init(p: &Program) -> St {
        let o = &p.objs;
        let n = p.threads.len();
        assert!(n <= MAXT);
        let mut th: Vec<Th> = (0..n)
            .map(|_| Th { pc: 0, status: Status::NotStarted, tok: false, results: vec![], vc: [0; MAXT], inbox: [0; MAXT], tls: vec![0; o.tls.len()] })
            .collect();
        th[0].status = Status::Ready;
        th[0].vc[0] = 1;
        let mut s = St {
            th,
            atomics: o.atomics.clone(),
            mowner: vec![None; o.mutexes],
            mrel: vec![[0; MAXT]; o.mutexes],
            mval: vec![0; o.mutexes],
            rwval: vec![0; o.rwlocks],
            rww: vec![None; o.rwlocks],
            rwr: vec![0; o.rwlocks],
            rwrel: vec![[0; MAXT]; o.rwlocks],
            cvq: vec![vec![]; o.condvars],
            nflag: vec![false; o.notifies],
            ncredit: vec![true; o.notifies],
            nrel: vec![[0; MAXT]; o.notifies],
            chan: vec![VecDeque::new(); o.chans],
            rx_alive: vec![true; o.chans],
            rx_forgotten: vec![false; o.chans],
            handle: vec![None; o.handles],
            arc_cnt: vec![0; o.arcs.len()],
            arc_drops: vec![0; o.arcs.len()],
            arel: vec![[0; MAXT]; o.arcs.len()],
            tracks: vec![0; o.tracks],
            allocs: vec![0; o.allocs],
            cells: vec![CellSt::default(); o.cells],
            lazy: vec![0; o.lazies.len()],
            lrel: vec![[0; MAXT]; o.lazies.len()],
            lazy_inits: vec![0; o.lazies.len()],
            raced: false,
            overlapped: false,
            user_panic: None,
            via_spurious: false,
            spur_by: 255,
        };
        s.normalise(p);
        s
    }

    /// A thread whose ops are exhausted becomes Returned/Done (no separate step unless it has
    /// live thread-locals to destroy).
    fn normalise(&mut self, p: &Program) {
        for t in 0..self.th.len() {
            let th = &mut self.th[t];
            if th.status == Status::Ready && th.pc == p.threads[t].len() {
                if th.tls.iter().any(|&x| x == 1) {
                    th.status = Status::Returned;
                } else {
                    th.status = Status::Done;
                }
            }
        }
    }

    pub fn all_done(&self) -> bool {
        self.th.iter().all(|t| matches!(t.status, Status::Done | Status::NotStarted))
    }

    /// `Join` sees a thread as finished once its closure returned
    fn joinable(&self, t: usize) -> bool {
        matches!(self.th[t].status, Status::Returned | Status::Done)
    }

    fn tick(&mut self, t: usize, m: Mode) {
        if m.hb {
            self.th[t].vc[t] += 1;
        }
    }

    fn cell_read(&mut self, t: usize, c: usize, m: Mode) {
        if self.cells[c].wr_held.is_some() {
            self.overlapped = true;
            return;
        }
        if !m.hb {
            return;
        }
        let vc = self.th[t].vc;
        if !vleq(&self.cells[c].w, &vc) {
            self.raced = true;
        }
        vjoin(&mut self.cells[c].r, &vc);
    }

    fn cell_write(&mut self, t: usize, c: usize, m: Mode) {
        if self.cells[c].wr_held.is_some() || self.cells[c].rd_held.iter().any(|&n| n > 0) {
            self.overlapped = true;
            return;
        }
        if !m.hb {
            return;
        }
        let vc = self.th[t].vc;
        if !vleq(&self.cells[c].w, &vc) || !vleq(&self.cells[c].r, &vc) {
            self.raced = true;
        }
        vjoin(&mut self.cells[c].w, &vc);
    }

    /// decrement the count of `arc` by thread `t`; returns 1 if the payload was dropped
    fn arc_dec(&mut self, p: &Program, t: usize, arc: usize, m: Mode) -> u64 {
        self.arc_cnt[arc] -= 1;
        let vc = self.th[t].vc;
        vjoin(&mut self.arel[arc], &vc);
        if self.arc_cnt[arc] == 0 {
            let rel = self.arel[arc];
            vjoin(&mut self.th[t].vc, &rel);
            self.arc_drops[arc] += 1;
            if let Some(c) = p.objs.arcs[arc] {
                self.cell_write(t, c, m);
            }
            if p.objs.arc_panic.get(arc).copied().unwrap_or(false) {
                self.user_panic = Some(4242);
            }
            if let Some(Some(a)) = p.objs.arc_rmw.get(arc) {
                self.atomics[*a] = self.atomics[*a].wrapping_add(1);
            }
            1
        } else {
            0
        }
    }

    /// All successor states of one step of thread `t`; `Some(res)` if the step completes the
    /// thread's current op.
    pub fn succ(&self, p: &Program, t: usize, m: Mode) -> Vec<(St, Option<Res>)> {
        if self.via_spurious {
            let mut s = self.clone();
            s.via_spurious = false;
            s.spur_by = 255;
            return s.succ(p, t, m);
        }
        let th = &self.th[t];
        let mut out = vec![];
        match th.status {
            Status::NotStarted | Status::Done => return out,
            Status::Returned => {
                // destroy the thread-locals (one internal step)
                let mut s = self.clone();
                for x in s.th[t].tls.iter_mut() {
                    if *x == 1 {
                        *x = 2;
                    }
                }
                s.th[t].status = Status::Done;
                out.push((s, None));
                return out;
            }
            Status::InWait(_cv, mx, notified) => {
                let mx = mx as usize;
                if notified && self.mowner[mx].is_none() {
                    let mut s = self.clone();
                    s.mowner[mx] = Some(t as u8);
                    let rel = s.mrel[mx];
                    let inbox = s.th[t].inbox;
                    vjoin(&mut s.th[t].vc, &rel);
                    vjoin(&mut s.th[t].vc, &inbox);
                    s.th[t].status = Status::Ready;
                    if matches!(p.threads[t][s.th[t].pc].k, K::CvWaitUntil { .. }) {
                        // back to the loop condition
                        s.normalise(p);
                        out.push((s, None));
                    } else {
                        s.finish_op(p, t, Res::U, m);
                        out.push((s, Some(Res::U)));
                    }
                }
                return out;
            }
            Status::LoopDecided => {
                let mut s = self.clone();
                match p.threads[t][th.pc].k {
                    K::NWaitUntil { n, .. } => {
                        if m.spurious && s.ncredit[n] {
                            let mut s2 = s.clone();
                            s2.ncredit[n] = false;
                            s2.via_spurious = true;
                            s2.spur_by = t as u8;
                            s2.th[t].status = Status::Ready;
                            out.push((s2, None));
                        }
                        if s.nflag[n] {
                            s.nflag[n] = false;
                            let rel = s.nrel[n];
                            vjoin(&mut s.th[t].vc, &rel);
                            s.th[t].status = Status::Ready;
                            out.push((s, None));
                        }
                    }
                    K::ParkUntil { .. } => {
                        if s.th[t].tok {
                            s.th[t].tok = false;
                            let inbox = s.th[t].inbox;
                            vjoin(&mut s.th[t].vc, &inbox);
                            s.th[t].status = Status::Ready;
                            out.push((s, None));
                        }
                    }
                    K::CvWaitUntil { cv, m: mx, .. } => {
                        s.cvq[cv].push(t as u8);
                        s.mowner[mx] = None;
                        let vc = s.th[t].vc;
                        vjoin(&mut s.mrel[mx], &vc);
                        s.th[t].status = Status::InWait(cv as u8, mx as u8, false);
                        s.th[t].inbox = [0; MAXT];
                        out.push((s, None));
                    }
                    _ => unreachable!("LoopDecided outside a loop op"),
                }
                return out;
            }
            Status::Spun => {
                if let K::AwaitSpun { a, want, .. } = p.threads[t][th.pc].k {
                    if self.atomics[a] == want {
                        let mut s = self.clone();
                        s.th[t].status = Status::Ready;
                        s.finish_op(p, t, Res::V(1), m);
                        out.push((s, Some(Res::V(1))));
                    }
                }
                return out;
            }
            Status::Ready => {}
        }
        let op = &p.threads[t][th.pc];
        if let Some(g) = op.g {
            if th.results.get(g.idx) != Some(&g.res) {
                let mut s = self.clone();
                s.finish_op(p, t, Res::Skip, m);
                out.push((s, Some(Res::Skip)));
                return out;
            }
        }
        let mut s = self.clone();
        // helper to finish with a result
        macro_rules! fin {
            ($s:expr, $r:expr) => {{
                let r = $r;
                $s.finish_op(p, t, r, m);
                out.push(($s, Some(r)));
            }};
        }
        match op.k {
            K::Load { a, .. } => {
                let v = s.atomics[a];
                fin!(s, Res::V(v))
            }
            K::Store { a, v, .. } => {
                s.atomics[a] = v;
                fin!(s, Res::U)
            }
            K::Swap { a, v, .. } => {
                let old = s.atomics[a];
                s.atomics[a] = v;
                fin!(s, Res::V(old))
            }
            K::FetchAdd { a, v, .. } => {
                let old = s.atomics[a];
                s.atomics[a] = old.wrapping_add(v);
                fin!(s, Res::V(old))
            }
            K::Cas { a, exp, new, .. } => {
                let old = s.atomics[a];
                if old == exp {
                    s.atomics[a] = new;
                    fin!(s, Res::Ok(old))
                } else {
                    fin!(s, Res::Err(old))
                }
            }
            K::Fence { .. } | K::Yield | K::Mark | K::UnsyncLoad { .. } | K::WithMut { .. } => fin!(s, Res::U),
            K::Await { a, want, .. } => {
                if s.atomics[a] == want {
                    fin!(s, Res::V(want))
                }
            }
            K::Await2 { a, b, wa, wb, .. } => {
                if s.atomics[a] == wa && s.atomics[b] == wb {
                    fin!(s, Res::U)
                }
            }
            K::AwaitSpun { a, want, .. } => {
                // the explorer spins only when the SC value is wrong; the acceptor also when it is
                // right (the real loop may have read a stale value)
                let holds = s.atomics[a] == want;
                if !holds || m.any_waiter {
                    let mut s2 = s.clone();
                    s2.th[t].status = Status::Spun;
                    out.push((s2, None));
                }
                if holds {
                    fin!(s, Res::V(0))
                }
            }
            K::CellRead { c } => {
                s.cell_read(t, c, m);
                fin!(s, Res::U)
            }
            K::CellWrite { c } => {
                s.cell_write(t, c, m);
                fin!(s, Res::U)
            }
            K::CellBegin { c, w } => {
                if w {
                    s.cell_write(t, c, m);
                    if !s.overlapped {
                        s.cells[c].wr_held = Some(t as u8);
                    }
                } else {
                    s.cell_read(t, c, m);
                    if !s.overlapped {
                        s.cells[c].rd_held[t] += 1;
                    }
                }
                fin!(s, Res::U)
            }
            K::CellEnd { c, w } => {
                if w {
                    assert_eq!(s.cells[c].wr_held, Some(t as u8), "ill-formed program: end of a write access that is not open");
                    s.cells[c].wr_held = None;
                } else {
                    assert!(s.cells[c].rd_held[t] > 0, "ill-formed program: end of a read access that is not open");
                    s.cells[c].rd_held[t] -= 1;
                }
                fin!(s, Res::U)
            }
            K::Lock { m: mx } => {
                if s.mowner[mx].is_none() {
                    s.mowner[mx] = Some(t as u8);
                    let rel = s.mrel[mx];
                    vjoin(&mut s.th[t].vc, &rel);
                    fin!(s, Res::U)
                }
            }
            K::TryLock { m: mx } => {
                if s.mowner[mx].is_none() {
                    s.mowner[mx] = Some(t as u8);
                    let rel = s.mrel[mx];
                    vjoin(&mut s.th[t].vc, &rel);
                    fin!(s, Res::Ok(0))
                } else {
                    fin!(s, Res::Err(0))
                }
            }
            K::Unlock { m: mx } => {
                assert_eq!(s.mowner[mx], Some(t as u8), "ill-formed program: unlock of a mutex not held");
                s.mowner[mx] = None;
                let vc = s.th[t].vc;
                vjoin(&mut s.mrel[mx], &vc);
                fin!(s, Res::U)
            }
            K::Read { l } => {
                if s.rww[l].is_none() {
                    s.rwr[l] |= 1 << t;
                    let rel = s.rwrel[l];
                    vjoin(&mut s.th[t].vc, &rel);
                    fin!(s, Res::U)
                }
            }
            K::TryRead { l } => {
                if s.rww[l].is_none() {
                    s.rwr[l] |= 1 << t;
                    let rel = s.rwrel[l];
                    vjoin(&mut s.th[t].vc, &rel);
                    fin!(s, Res::Ok(0))
                } else {
                    fin!(s, Res::Err(0))
                }
            }
            K::Write { l } => {
                if s.rww[l].is_none() && s.rwr[l] == 0 {
                    s.rww[l] = Some(t as u8);
                    let rel = s.rwrel[l];
                    vjoin(&mut s.th[t].vc, &rel);
                    fin!(s, Res::U)
                }
            }
            K::TryWrite { l } => {
                if s.rww[l].is_none() && s.rwr[l] == 0 {
                    s.rww[l] = Some(t as u8);
                    let rel = s.rwrel[l];
                    vjoin(&mut s.th[t].vc, &rel);
                    fin!(s, Res::Ok(0))
                } else {
                    fin!(s, Res::Err(0))
                }
            }
            K::UnlockR { l } => {
                assert!(s.rwr[l] & (1 << t) != 0, "ill-formed program: read-unlock without read lock");
                s.rwr[l] &= !(1 << t);
                let vc = s.th[t].vc;
                vjoin(&mut s.rwrel[l], &vc);
                fin!(s, Res::U)
            }
            K::UnlockW { l } => {
                assert_eq!(s.rww[l], Some(t as u8), "ill-formed program: write-unlock without write lock");
                s.rww[l] = None;
                let vc = s.th[t].vc;
                vjoin(&mut s.rwrel[l], &vc);
                fin!(s, Res::U)
            }
            K::GSet { m: mx, v } => {
                assert_eq!(s.mowner[mx], Some(t as u8), "ill-formed program: gset without the mutex");
                s.mval[mx] = v;
                fin!(s, Res::U)
            }
            K::GGet { m: mx } => {
                assert_eq!(s.mowner[mx], Some(t as u8), "ill-formed program: gget without the mutex");
                let v = s.mval[mx];
                fin!(s, Res::V(v))
            }
            K::LSet { l, v } => {
                assert_eq!(s.rww[l], Some(t as u8), "ill-formed program: lset without the write lock");
                s.rwval[l] = v;
                fin!(s, Res::U)
            }
            K::LGet { l } => {
                assert!(s.rww[l] == Some(t as u8) || s.rwr[l] & (1 << t) != 0, "ill-formed program: lget without a guard");
                let v = s.rwval[l];
                fin!(s, Res::V(v))
            }
            K::MGetMut { m: mx } | K::MIntoInner { m: mx } => {
                assert!(s.mowner[mx].is_none(), "ill-formed program: get_mut / into_inner of a held mutex");
                let v = s.mval[mx];
                fin!(s, Res::V(v))
            }
            K::LGetMut { l } | K::LIntoInner { l } => {
                assert!(s.rww[l].is_none() && s.rwr[l] == 0, "ill-formed program: get_mut / into_inner of a held rwlock");
                let v = s.rwval[l];
                fin!(s, Res::V(v))
            }
            K::Wait { cv, m: mx } => {
                assert_eq!(s.mowner[mx], Some(t as u8), "ill-formed program: wait without the mutex");
                // step A: enqueue, release the mutex
                s.cvq[cv].push(t as u8);
                s.mowner[mx] = None;
                let vc = s.th[t].vc;
                vjoin(&mut s.mrel[mx], &vc);
                s.th[t].status = Status::InWait(cv as u8, mx as u8, false);
                s.th[t].inbox = [0; MAXT];
                out.push((s, None));
            }
            K::NotifyOne { cv } => {
                if s.cvq[cv].is_empty() {
                    fin!(s, Res::U)
                } else if m.any_waiter {
                    for i in 0..s.cvq[cv].len() {
                        let mut s2 = s.clone();
                        let u = s2.cvq[cv].remove(i) as usize;
                        s2.wake_waiter(t, u);
                        s2.finish_op(p, t, Res::U, m);
                        out.push((s2, Some(Res::U)));
                    }
                } else {
                    let u = s.cvq[cv].remove(0) as usize;
                    s.wake_waiter(t, u);
                    fin!(s, Res::U)
                }
            }
            K::NotifyAll { cv } => {
                let q = std::mem::take(&mut s.cvq[cv]);
                for u in q {
                    s.wake_waiter(t, u as usize);
                }
                fin!(s, Res::U)
            }
            K::NWait { n } => {
                if m.spurious && s.ncredit[n] {
                    let mut s2 = s.clone();
                    s2.ncredit[n] = false;
                    s2.finish_op(p, t, Res::U, m);
                    s2.via_spurious = true;
                    s2.spur_by = t as u8;
                    out.push((s2, Some(Res::U)));
                }
                if s.nflag[n] {
                    s.nflag[n] = false;
                    let rel = s.nrel[n];
                    vjoin(&mut s.th[t].vc, &rel);
                    fin!(s, Res::U)
                }
            }
            K::NNotify { n } => {
                s.nflag[n] = true;
                let vc = s.th[t].vc;
                vjoin(&mut s.nrel[n], &vc);
                fin!(s, Res::U)
            }
            // wait-in-a-loop idioms: reading the condition and calling wait are separate steps
            // (`Status::LoopDecided` in between). The explorer (SC values) decides to wait only
            // when the condition is false; the conformance acceptor (`any_waiter`) also when it
            // holds, because the real loop may have read a stale value.
            K::NWaitUntil { a, want, .. } | K::ParkUntil { a, want, .. } | K::CvWaitUntil { a, want, .. } => {
                if let K::CvWaitUntil { m: mx, .. } = op.k {
                    assert_eq!(s.mowner[mx], Some(t as u8), "ill-formed program: wait without the mutex");
                }
                let holds = s.atomics[a] == want;
                if !holds || m.any_waiter {
                    let mut s2 = s.clone();
                    s2.th[t].status = Status::LoopDecided;
                    out.push((s2, None));
                }
                if holds {
                    fin!(s, Res::U)
                }
            }
            K::Park => {
                if s.th[t].tok {
                    s.th[t].tok = false;
                    let inbox = s.th[t].inbox;
                    vjoin(&mut s.th[t].vc, &inbox);
                    fin!(s, Res::U)
                }
            }
            K::Unpark { t: u } => {
                s.th[u].tok = true;
                let vc = s.th[t].vc;
                vjoin(&mut s.th[u].inbox, &vc);
                fin!(s, Res::U)
            }
            K::Send { ch, v } => {
                // after the receiver is dropped the message is handed back to the sender
                // (whether the call says Ok or Err is not part of the observable result)
                if s.rx_alive[ch] {
                    let vc = s.th[t].vc;
                    s.chan[ch].push_back((v, if m.hb { vc } else { [0; MAXT] }));
                }
                fin!(s, Res::U)
            }
            K::Recv { ch } => {
                if let Some((v, k)) = s.chan[ch].pop_front() {
                    vjoin(&mut s.th[t].vc, &k);
                    fin!(s, Res::Ok(v))
                }
            }
            K::TryRecv { ch } => {
                if let Some((v, k)) = s.chan[ch].pop_front() {
                    vjoin(&mut s.th[t].vc, &k);
                    fin!(s, Res::Ok(v))
                } else {
                    fin!(s, Res::Err(0))
                }
            }
            K::DropRx { ch } => {
                s.chan[ch].clear();
                s.rx_alive[ch] = false;
                fin!(s, Res::U)
            }
            K::ForgetRx { ch } => {
                s.rx_forgotten[ch] = true;
                fin!(s, Res::U)
            }
            K::ArcNew { h, arc } => {
                s.handle[h] = Some(arc as u8);
                s.arc_cnt[arc] = 1;
                fin!(s, Res::U)
            }
            K::ArcClone { from, to } => {
                let a = s.handle[from].expect("ill-formed: empty handle") as usize;
                s.arc_cnt[a] += 1;
                s.handle[to] = Some(a as u8);
                fin!(s, Res::U)
            }
            K::ArcDrop { h } | K::ArcDecStrong { h } => {
                let a = s.handle[h].take().expect("ill-formed: empty handle") as usize;
                let d = s.arc_dec(p, t, a, m);
                fin!(s, Res::V(d))
            }
            K::ArcForget { h } => {
                s.handle[h].take().expect("ill-formed: empty handle");
                fin!(s, Res::U)
            }
            K::ArcCount { h } => {
                let a = s.handle[h].expect("ill-formed: empty handle") as usize;
                let c = s.arc_cnt[a] as u64;
                fin!(s, Res::V(c))
            }
            K::ArcGetMut { h } => {
                let a = s.handle[h].expect("ill-formed: empty handle") as usize;
                let rel = s.arel[a];
                vjoin(&mut s.th[t].vc, &rel);
                let c = (s.arc_cnt[a] == 1) as u64;
                fin!(s, Res::V(c))
            }
            K::ArcTryUnwrap { h } => {
                let a = s.handle[h].expect("ill-formed: empty handle") as usize;
                let rel = s.arel[a];
                vjoin(&mut s.th[t].vc, &rel);
                if s.arc_cnt[a] == 1 {
                    s.handle[h] = None;
                    let d = s.arc_dec(p, t, a, m);
                    fin!(s, Res::Ok(d))
                } else {
                    fin!(s, Res::Err(0))
                }
            }
            K::ArcPtrEq { h, h2 } => {
                let r = (s.handle[h].expect("empty") == s.handle[h2].expect("empty")) as u64;
                fin!(s, Res::V(r))
            }
            K::ArcRawRoundTrip { .. } | K::ArcHold { .. } => fin!(s, Res::U),
            K::ArcIncStrong { h, to } => {
                let a = s.handle[h].expect("ill-formed: empty handle") as usize;
                s.arc_cnt[a] += 1;
                s.handle[to] = Some(a as u8);
                fin!(s, Res::U)
            }
            K::TrackNew { k } => {
                s.tracks[k] = 1;
                fin!(s, Res::U)
            }
            K::TrackDrop { k } => {
                s.tracks[k] = 2;
                fin!(s, Res::U)
            }
            K::TrackForget { k } => {
                s.tracks[k] = 3;
                fin!(s, Res::U)
            }
            K::Alloc { k } => {
                s.allocs[k] = 1;
                fin!(s, Res::U)
            }
            K::Dealloc { k } => {
                s.allocs[k] = 2;
                fin!(s, Res::U)
            }
            K::TlsWith { k } => {
                let first = s.th[t].tls[k] == 0;
                s.th[t].tls[k] = 1;
                fin!(s, Res::V(first as u64))
            }
            K::TlsNested { k, k2 } => {
                let f1 = s.th[t].tls[k] == 0;
                s.th[t].tls[k] = 1;
                let f2 = s.th[t].tls[k2] == 0;
                s.th[t].tls[k2] = 1;
                fin!(s, Res::V(f1 as u64 * 2 + f2 as u64))
            }
            K::LazyGet { k } => {
                let first = s.lazy[k] == 0;
                if first {
                    s.lazy[k] = 1;
                    s.lazy_inits[k] += 1;
                    s.lrel[k] = s.th[t].vc;
                }
                let rel = s.lrel[k];
                vjoin(&mut s.th[t].vc, &rel);
                fin!(s, Res::V(first as u64))
            }
            K::Spawn { t: u } => {
                assert_eq!(s.th[u].status, Status::NotStarted, "ill-formed: thread spawned twice");
                s.th[u].status = Status::Ready;
                let vc = s.th[t].vc;
                s.th[u].vc = vc;
                if m.hb {
                    s.th[u].vc[u] += 1;
                }
                fin!(s, Res::U)
            }
            K::Join { t: u } => {
                if s.joinable(u) {
                    let vc = s.th[u].vc;
                    vjoin(&mut s.th[t].vc, &vc);
                    fin!(s, Res::U)
                }
            }
            K::StopExploring | K::Explore | K::SkipBranch => fin!(s, Res::U),
            K::PanicHere { tag } => {
                s.user_panic = Some(tag);
                fin!(s, Res::U)
            }
        }
        out
    }

    fn wake_waiter(&mut self, t: usize, u: usize) {
        if let Status::InWait(cv, mx, _) = self.th[u].status {
            self.th[u].status = Status::InWait(cv, mx, true);
            let vc = self.th[t].vc;
            vjoin(&mut self.th[u].inbox, &vc);
        }
    }

    fn finish_op(&mut self, p: &Program, t: usize, r: Res, m: Mode) {
        self.th[t].results.push(r);
        self.th[t].pc += 1;
        self.tick(t, m);
        self.normalise(p);
    }

    pub fn outcome(&self, p: &Program) -> Outcome {
        self.th
            .iter()
            .enumerate()
            .map(|(t, th)| {
                let mut r = th.results.clone();
                r.resize(p.threads[t].len(), Res::Nr);
                r
            })
            .collect()
    }

    /// Leak kinds at a terminal state in which every thread finished. Handles still in slots are
    /// released by the harness at the end, so only forgotten ones count.
    pub fn leaks(&self) -> BTreeSet<String> {
        let mut l = BTreeSet::new();
        for a in 0..self.arc_cnt.len() {
            let held = self.handle.iter().filter(|h| **h == Some(a as u8)).count() as u32;
            if self.arc_cnt[a] > held {
                l.insert("Arc".to_string());
            }
        }
        if self.tracks.iter().any(|&x| x == 3) || self.allocs.iter().any(|&x| x == 1) {
            l.insert("Allocation".to_string());
        }
        for (c, q) in self.chan.iter().enumerate() {
            // a live receiver is dropped (and drained) by the harness at the end; a forgotten one
            // never drains
            if !q.is_empty() && self.rx_forgotten[c] {
                l.insert("Messages".to_string());
            }
        }
        l
    }
}

#[derive(Clone, Debug, Default)]
pub struct ScResult {
    /// outcomes of executions in which every thread finished (no race, no user panic)
    pub done: BTreeSet<Outcome>,
    /// partial outcomes at deadlock states
    pub deadlocks: BTreeSet<Outcome>,
    pub race: bool,
    pub overlap: bool,
    /// leak kinds over all finished executions
    pub leaks: BTreeSet<String>,
    /// outcomes of finished executions without a leak
    pub done_noleak: BTreeSet<Outcome>,
    pub user_panics: BTreeSet<u64>,
    pub states: u64,
    pub transitions: u64,
    pub truncated: bool,
    /// one witness step sequence per verdict kind ("deadlock", "race", "leak:<k>")
    pub witness: BTreeMap<String, Vec<(u8, String)>>,
}

impl ScResult {
    pub fn bad_kinds(&self) -> BTreeSet<String> {
        let mut k = BTreeSet::new();
        if !self.deadlocks.is_empty() {
            k.insert("Deadlock".to_string());
        }
        if self.race {
            k.insert("Race".to_string());
        }
        if self.overlap {
            k.insert("Overlap".to_string());
        }
        for l in &self.leaks {
            k.insert(format!("Leak({})", l));
        }
        for u in &self.user_panics {
            k.insert(format!("User({})", u));
        }
        k
    }
}

impl St {
    /// Cell accesses are not scheduling points: they run together with the step before them
    /// (whether an access *overlaps* an open one depends on the schedule, and loom only switches
    /// threads at scheduling points). Applied by the explorer after every step of thread `t`.
    fn absorb_cell_ops(mut self, p: &Program, t: usize, m: Mode) -> St {
        loop {
            if self.raced || self.overlapped || self.user_panic.is_some() || self.via_spurious {
                return self;
            }
            let th = &self.th[t];
            if th.status != Status::Ready || th.pc >= p.threads[t].len() {
                return self;
            }
            if !matches!(p.threads[t][th.pc].k, K::CellBegin { .. } | K::CellEnd { .. } | K::CellRead { .. } | K::CellWrite { .. }) {
                return self;
            }
            let mut nx = self.succ(p, t, m);
            if nx.len() != 1 {
                return self;
            }
            self = nx.pop().unwrap().0;
        }
    }
}

/// Exhaustive DFS over all interleavings.
pub fn explore(p: &Program, m: Mode, max_states: u64) -> ScResult {
    let mut res = ScResult::default();
    let mut seen: HashSet<St> = HashSet::new();
    let init = St::init(p);
    // explicit stack with the path for witnesses
    let mut stack: Vec<(St, Vec<(u8, String)>)> = vec![(init.clone(), vec![])];
    seen.insert(init);
    while let Some((s, path)) = stack.pop() {
        res.states += 1;
        if res.states > max_states {
            res.truncated = true;
            break;
        }
        if s.overlapped {
            res.overlap = true;
            res.witness.entry("overlap".into()).or_insert(path);
            continue;
        }
        if s.raced {
            res.race = true;
            res.witness.entry("race".into()).or_insert(path);
            continue;
        }
        if let Some(tag) = s.user_panic {
            res.user_panics.insert(tag);
            continue;
        }
        let mut any = false;
        let mut any_spurious = false;
        // attribution variant: the thread that just returned spuriously yields to the others
        let yielding: Option<usize> = if m.spur_yield && s.via_spurious && s.spur_by != 255 {
            let t0 = s.spur_by as usize;
            let others = (0..s.th.len()).any(|t| t != t0 && s.succ(p, t, m).iter().any(|(n, _)| !n.via_spurious));
            if others {
                Some(t0)
            } else {
                None
            }
        } else {
            None
        };
        for t in 0..s.th.len() {
            if yielding == Some(t) {
                continue;
            }
            for (n, _r) in s.succ(p, t, m) {
                let n = if p.objs.cells > 0 { n.absorb_cell_ops(p, t, m) } else { n };
                if n.via_spurious {
                    any_spurious = true;
                } else {
                    any = true;
                }
                res.transitions += 1;
                if !seen.contains(&n) {
                    seen.insert(n.clone());
                    let mut np = path.clone();
                    let desc = if s.th[t].pc < p.threads[t].len() { op_text(&p.threads[t][s.th[t].pc]) } else { "tls-destructors".to_string() };
                    np.push((t as u8, desc));
                    stack.push((n, np));
                }
            }
        }
        let _ = any_spurious;
        if !any {
            if s.all_done() {
                // handles still held are released by the harness at the end of the iteration; if
                // that drops a payload whose Drop panics, the iteration fails there
                let final_drop_panics = (0..s.arc_cnt.len()).any(|a| {
                    let held = s.handle.iter().filter(|h| **h == Some(a as u8)).count() as u32;
                    p.objs.arc_panic.get(a).copied().unwrap_or(false) && held > 0 && s.arc_cnt[a] == held
                });
                if final_drop_panics {
                    res.user_panics.insert(4242);
                    continue;
                }
                let o = s.outcome(p);
                let l = s.leaks();
                if l.is_empty() {
                    res.done_noleak.insert(o.clone());
                } else {
                    for k in &l {
                        res.witness.entry(format!("leak:{}", k)).or_insert_with(|| path.clone());
                    }
                    res.leaks.extend(l);
                }
                res.done.insert(o);
            } else {
                res.deadlocks.insert(s.outcome(p));
                res.witness.entry("deadlock".into()).or_insert(path);
            }
        }
    }
    res
}
