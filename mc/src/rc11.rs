//! RC11 enumerator: axiomatic reference for atomics, fences and non-atomic accesses.
//!
//! Candidate executions are generated operationally so that `po ∪ asw ∪ rf` is acyclic by
//! construction (this is C02's "no load buffering" side condition and RC11's no-thin-air axiom);
//! every complete candidate is filtered by the RC11 axioms on bit-matrix relations.
//! Release sequences are the C++20 ones (head followed by RMWs only).

use crate::ir::*;
use std::collections::{BTreeSet, HashSet};

const MAXE: usize = 32;
type Rel = [u32; MAXE];

#[derive(Clone, Copy, PartialEq, Eq, Hash, Debug)]
enum EK {
    R,
    W,
    U,
    F,
    /// non-atomic read / write (cells, `unsync_load`, `with_mut`)
    NR,
    NW,
}

#[derive(Clone, Copy, PartialEq, Eq, Hash, Debug)]
struct Ev {
    t: u8,
    idx: u8,
    k: EK,
    /// location: atomics are 0..A, cells are A..A+C; fences use u8::MAX
    loc: u8,
    mo: MO,
    rval: u64,
    wval: u64,
    /// key of the write read from (R, U), see `set_rf`
    rf: u16,
}

const INIT_T: u8 = 255;
const NOLOC: u8 = 255;
const NORF: u16 = u16::MAX;

#[derive(Clone, PartialEq, Eq, Hash)]
struct XSt {
    pcs: Vec<u8>,
    started: Vec<bool>,
    results: Vec<Vec<Res>>,
    /// events in a canonical order: init events first, then grouped by creation (ids are stable:
    /// an event's id is its index here, assigned as (thread, idx) is executed). To make the state
    /// independent of the interleaving, `evs` is kept sorted by (t, idx) and rf/mo refer to
    /// (t, idx) keys instead of indices.
    evs: Vec<Ev>,
    /// per location: modification order as (t, idx) keys
    mo: Vec<Vec<(u8, u8)>>,
}

fn key(e: &Ev) -> (u8, u8) {
    (e.t, e.idx)
}

#[derive(Clone, Debug, Default)]
pub struct Rc11Result {
    /// outcomes of all consistent complete executions
    pub outcomes: BTreeSet<Outcome>,
    /// some consistent execution has a data race
    pub race: bool,
    /// outcomes of consistent executions that have a race (diagnostics)
    pub racy_outcomes: BTreeSet<Outcome>,
    /// some maximal candidate is incomplete (an `Await` can stay unsatisfied)
    pub stuck: bool,
    pub states: u64,
    pub transitions: u64,
    pub candidates: u64,
    pub consistent: u64,
    pub truncated: bool,
}

#[derive(Clone, Copy, PartialEq, Eq, Debug)]
pub enum Variant {
    /// SeqCst accesses are SC events
    Rc11,
    /// SeqCst accesses demoted to acquire / release / acq-rel; SeqCst fences stay SC
    Rc11Minus,
    /// RC11 with one operational restriction, used only to *attribute* known findings: a
    /// read-modify-write (and a failing compare_exchange) reads the store that is last in
    /// modification order among the stores generated so far, and a store generated after a
    /// read-modify-write is later in modification order than it (what loom does, defects D12/D15)
    Rc11RmwNewest,
    /// RC11 plus a total order of the SeqCst fences inside happens-before, used only to
    /// *attribute* known findings of C04 (defect D11)
    Rc11ScFenceHb,
    /// RC11 with loom's progress rule for spin loops, used only to *attribute* known findings of
    /// C18 (defect D24): after a loop has spun (yielded), the thread does not read again a store
    /// it had already read before that yield once a newer store of the location exists
    Rc11YieldFilter,
    /// RC11 with one operational restriction, used only to *attribute* known findings of C02
    /// (defect D16): a SeqCst load does not read a SeqCst store once a SeqCst store that is
    /// later in modification order has been generated
    Rc11ScLoadNewest,
    /// both restrictions (D12/D15 and D16) at once
    Rc11RmwAndScNewest,
}

pub fn supported(p: &Program) -> bool {
    p.threads.iter().flatten().all(|op| {
        matches!(
            op.k,
            K::Load { .. }
                | K::Store { .. }
                | K::Swap { .. }
                | K::FetchAdd { .. }
                | K::Cas { .. }
                | K::Fence { .. }
                | K::UnsyncLoad { .. }
                | K::WithMut { .. }
                | K::Await { .. }
                | K::AwaitSpun { .. }
                | K::Await2 { .. }
                | K::CellRead { .. }
                | K::CellWrite { .. }
                | K::Spawn { .. }
                | K::Join { .. }
        )
    })
}

pub fn enumerate(p: &Program, variant: Variant, max_states: u64) -> Rc11Result {
    let na = p.objs.atomics.len();
    let nloc = na + p.objs.cells;
    let n = p.threads.len();
    let mut init_evs = vec![];
    let mut mo = vec![vec![]; nloc];
    for a in 0..na {
        let e = Ev { t: INIT_T, idx: a as u8, k: EK::W, loc: a as u8, mo: MO::Rlx, rval: 0, wval: p.objs.atomics[a], rf: NORF };
        mo[a].push(key(&e));
        init_evs.push(e);
    }
    let mut started = vec![false; n];
    started[0] = true;
    let init = XSt { pcs: vec![0; n], started, results: vec![vec![]; n], evs: init_evs, mo };

    let mut res = Rc11Result::default();
    let mut seen: HashSet<XSt> = HashSet::new();
    let mut stack = vec![init.clone()];
    seen.insert(init);
    while let Some(s) = stack.pop() {
        res.states += 1;
        if res.states > max_states {
            res.truncated = true;
            break;
        }
        let mut any = false;
        for t in 0..n {
            for nx in succ(p, &s, t, variant) {
                any = true;
                res.transitions += 1;
                if seen.insert(nx.clone()) {
                    stack.push(nx);
                }
            }
        }
        if !any {
            let complete = (0..n).all(|t| !s.started[t] || s.pcs[t] as usize == p.threads[t].len());
            if !complete {
                // a maximal but incomplete candidate: only relevant if it is consistent so far
                if check(p, &s, variant).0 {
                    res.stuck = true;
                }
                continue;
            }
            res.candidates += 1;
            let (ok, race) = check(p, &s, variant);
            if ok {
                res.consistent += 1;
                let o: Outcome = s.results.clone();
                if race {
                    res.race = true;
                    res.racy_outcomes.insert(o.clone());
                }
                res.outcomes.insert(o);
            }
        }
    }
    res
}

fn find<'a>(s: &'a XSt, k: (u8, u8)) -> &'a Ev {
    s.evs.iter().find(|e| key(e) == k).unwrap()
}

fn push_ev(s: &mut XSt, e: Ev) {
    // keep sorted by (t, idx) with init events (t = 255) first
    let ord = |e: &Ev| (if e.t == INIT_T { 0u16 } else { 1 + e.t as u16 }, e.idx);
    let pos = s.evs.iter().position(|x| ord(x) > ord(&e)).unwrap_or(s.evs.len());
    s.evs.insert(pos, e);
}

fn succ(p: &Program, s: &XSt, t: usize, variant: Variant) -> Vec<XSt> {
    let mut out = vec![];
    if !s.started[t] || s.pcs[t] as usize >= p.threads[t].len() {
        return out;
    }
    let pc = s.pcs[t] as usize;
    let op = &p.threads[t][pc];
    let na = p.objs.atomics.len();
    let fin = |mut s2: XSt, r: Res| -> XSt {
        s2.results[t].push(r);
        s2.pcs[t] += 1;
        s2
    };
    if let Some(g) = op.g {
        if s.results[t].get(g.idx) != Some(&g.res) {
            out.push(fin(s.clone(), Res::Skip));
            return out;
        }
    }
    // events of op `pc` get idx 2*pc+1; an op with two events (AwaitSpun) puts its earlier one
    // at 2*pc, so that sb is still the order of idx within a thread
    assert!(pc < 32, "thread too long for the event numbering");
    let mk = |k: EK, loc: usize, mo: MO| Ev { t: t as u8, idx: (2 * pc + 1) as u8, k, loc: loc as u8, mo, rval: 0, wval: 0, rf: NORF };
    let mk_early = |k: EK, loc: usize, mo: MO| Ev { t: t as u8, idx: (2 * pc) as u8, k, loc: loc as u8, mo, rval: 0, wval: 0, rf: NORF };
    let dl = |m: MO| if variant == Variant::Rc11Minus { m.demote_load() } else { m };
    let ds = |m: MO| if variant == Variant::Rc11Minus { m.demote_store() } else { m };
    let du = |m: MO| if variant == Variant::Rc11Minus { m.demote_rmw() } else { m };

    // may a new write be inserted at position `pos` of mo[loc]? (not between an RMW and its source)
    let can_insert = |s: &XSt, loc: usize, pos: usize| -> bool {
        if pos == 0 {
            return false;
        }
        if pos < s.mo[loc].len() {
            let nxt = find(s, s.mo[loc][pos]);
            if nxt.k == EK::U && rf_key(s, nxt) == s.mo[loc][pos - 1] {
                return false;
            }
        }
        // attribution variants for D12/D15: loom orders every store after every
        // read-modify-write of the location that was executed before it
        if matches!(variant, Variant::Rc11RmwNewest | Variant::Rc11RmwAndScNewest) && s.mo[loc][pos..].iter().any(|k| find(s, *k).k == EK::U) {
            return false;
        }
        true
    };

    // Cheap sound pruning (implied by COHERENCE through sb): index in mo[loc] of the newest write
    // this thread has already written or read; later accesses of the thread cannot go below it.
    let floor = |s: &XSt, loc: usize| -> usize {
        let mut f = 0;
        for e in s.evs.iter().filter(|e| e.t as usize == t && e.loc as usize == loc) {
            let k = match e.k {
                EK::W | EK::U => Some(key(e)),
                EK::R => Some(rf_key(s, e)),
                _ => None,
            };
            if let Some(k) = k {
                if let Some(i) = s.mo[loc].iter().position(|x| *x == k) {
                    f = f.max(i);
                }
            }
        }
        f
    };

    match op.k {
        K::Load { a, mo } | K::Await { a, mo, .. } => {
            let want = if let K::Await { want, .. } = op.k { Some(want) } else { None };
            let fl = floor(s, a);
            // attribution variant: the op index of the last loop of this thread that spun
            let spun_at: Option<usize> = if variant == Variant::Rc11YieldFilter {
                (0..pc).rev().find(|&i| matches!(p.threads[t][i].k, K::AwaitSpun { .. }) && s.results[t].get(i) == Some(&Res::V(1)))
            } else {
                None
            };
            for (wi, &wk) in s.mo[a].iter().enumerate() {
                if wi < fl {
                    continue;
                }
                if let Some(iy) = spun_at {
                    let newer_exists = wi + 1 < s.mo[a].len();
                    // the thread has "seen" a store if it read it - or created it: the harness
                    // creates every atomic (its initial store) in the main thread
                    let read_before_yield = (t == 0 && wk.0 == INIT_T) || s.evs.iter().any(|e| e.t as usize == t && (e.idx as usize) <= 2 * iy && matches!(e.k, EK::R | EK::U) && e.loc as usize == a && rf_key(s, e) == wk);
                    if newer_exists && read_before_yield {
                        continue;
                    }
                }
                let w = find(s, wk);
                if matches!(variant, Variant::Rc11ScLoadNewest | Variant::Rc11RmwAndScNewest) && mo == MO::Sc && w.mo == MO::Sc && w.t != INIT_T {
                    let newer_sc = s.mo[a][wi + 1..].iter().any(|k| find(s, *k).mo == MO::Sc);
                    if newer_sc {
                        continue;
                    }
                }
                if let Some(wv) = want {
                    if w.wval != wv {
                        continue;
                    }
                }
                let mut s2 = s.clone();
                let mut e = mk(EK::R, a, dl(mo));
                e.rval = w.wval;
                set_rf(&mut e, wk);
                push_ev(&mut s2, e);
                out.push(fin(s2, Res::V(w.wval)));
            }
        }
        K::Await2 { a, b, mo, wa, wb } => {
            // the last iteration of the loop: a load of `a` reading wa, then a load of `b` reading wb
            let (fa, fb) = (floor(s, a), floor(s, b));
            for ia in fa..s.mo[a].len() {
                let ka = s.mo[a][ia];
                if find(s, ka).wval != wa {
                    continue;
                }
                for ib in fb..s.mo[b].len() {
                    let kb = s.mo[b][ib];
                    if find(s, kb).wval != wb {
                        continue;
                    }
                    let mut s2 = s.clone();
                    let mut e1 = mk_early(EK::R, a, dl(mo));
                    e1.rval = wa;
                    set_rf(&mut e1, ka);
                    push_ev(&mut s2, e1);
                    let mut e2 = mk(EK::R, b, dl(mo));
                    e2.rval = wb;
                    set_rf(&mut e2, kb);
                    push_ev(&mut s2, e2);
                    out.push(fin(s2, Res::U));
                }
            }
        }
        K::AwaitSpun { a, mo, want } => {
            // either the first load reads `want` (0), or one earlier load of the loop read
            // another value and a later one reads `want` (1); further failed loads add no
            // constraint that one of them does not already add
            let fl = floor(s, a);
            let n = s.mo[a].len();
            for i2 in fl..n {
                let w2 = find(s, s.mo[a][i2]);
                if w2.wval != want {
                    continue;
                }
                let k2 = s.mo[a][i2];
                {
                    let mut s2 = s.clone();
                    let mut e = mk(EK::R, a, dl(mo));
                    e.rval = want;
                    set_rf(&mut e, k2);
                    push_ev(&mut s2, e);
                    out.push(fin(s2, Res::V(0)));
                }
                for i1 in fl..=i2 {
                    let k1 = s.mo[a][i1];
                    let w1 = find(s, k1);
                    if w1.wval == want {
                        continue;
                    }
                    let mut s2 = s.clone();
                    let mut e1 = mk_early(EK::R, a, dl(mo));
                    e1.rval = w1.wval;
                    set_rf(&mut e1, k1);
                    push_ev(&mut s2, e1);
                    let mut e2 = mk(EK::R, a, dl(mo));
                    e2.rval = want;
                    set_rf(&mut e2, k2);
                    push_ev(&mut s2, e2);
                    out.push(fin(s2, Res::V(1)));
                }
            }
        }
        K::Store { a, v, mo } => {
            for pos in (floor(s, a) + 1)..=s.mo[a].len() {
                if !can_insert(s, a, pos) {
                    continue;
                }
                let mut s2 = s.clone();
                let mut e = mk(EK::W, a, ds(mo));
                e.wval = v;
                s2.mo[a].insert(pos, key(&e));
                push_ev(&mut s2, e);
                out.push(fin(s2, Res::U));
            }
        }
        K::Swap { a, mo, .. } | K::FetchAdd { a, mo, .. } => {
            let fl = floor(s, a);
            for (i, &wk) in s.mo[a].iter().enumerate() {
                if i < fl || !can_insert(s, a, i + 1) {
                    continue;
                }
                if matches!(variant, Variant::Rc11RmwNewest | Variant::Rc11RmwAndScNewest) && i + 1 != s.mo[a].len() {
                    continue;
                }
                let w = find(s, wk);
                let mut s2 = s.clone();
                let mut e = mk(EK::U, a, du(mo));
                e.rval = w.wval;
                e.wval = match op.k {
                    K::Swap { v, .. } => v,
                    K::FetchAdd { v, .. } => w.wval.wrapping_add(v),
                    _ => unreachable!(),
                };
                set_rf(&mut e, wk);
                s2.mo[a].insert(i + 1, key(&e));
                push_ev(&mut s2, e);
                out.push(fin(s2, Res::V(w.wval)));
            }
        }
        K::Cas { a, exp, new, s: so, f } => {
            let fl = floor(s, a);
            for (i, &wk) in s.mo[a].iter().enumerate() {
                if i < fl {
                    continue;
                }
                if matches!(variant, Variant::Rc11RmwNewest | Variant::Rc11RmwAndScNewest) && i + 1 != s.mo[a].len() {
                    continue;
                }
                let w = find(s, wk);
                if w.wval == exp {
                    if !can_insert(s, a, i + 1) {
                        continue;
                    }
                    let mut s2 = s.clone();
                    let mut e = mk(EK::U, a, du(so));
                    e.rval = w.wval;
                    e.wval = new;
                    set_rf(&mut e, wk);
                    s2.mo[a].insert(i + 1, key(&e));
                    push_ev(&mut s2, e);
                    out.push(fin(s2, Res::Ok(w.wval)));
                } else {
                    let mut s2 = s.clone();
                    let mut e = mk(EK::R, a, dl(f));
                    e.rval = w.wval;
                    set_rf(&mut e, wk);
                    push_ev(&mut s2, e);
                    out.push(fin(s2, Res::Err(w.wval)));
                }
            }
        }
        K::Fence { mo } => {
            let mut s2 = s.clone();
            let mut e = mk(EK::F, 0, mo);
            e.loc = NOLOC;
            push_ev(&mut s2, e);
            out.push(fin(s2, Res::U));
        }
        K::CellRead { c } => {
            let mut s2 = s.clone();
            push_ev(&mut s2, mk(EK::NR, na + c, MO::Rlx));
            out.push(fin(s2, Res::U));
        }
        K::CellWrite { c } => {
            let mut s2 = s.clone();
            push_ev(&mut s2, mk(EK::NW, na + c, MO::Rlx));
            out.push(fin(s2, Res::U));
        }
        K::UnsyncLoad { a } => {
            let mut s2 = s.clone();
            push_ev(&mut s2, mk(EK::NR, a, MO::Rlx));
            out.push(fin(s2, Res::U));
        }
        K::WithMut { a } => {
            let mut s2 = s.clone();
            push_ev(&mut s2, mk(EK::NW, a, MO::Rlx));
            out.push(fin(s2, Res::U));
        }
        K::Spawn { t: u } => {
            let mut s2 = s.clone();
            s2.started[u] = true;
            out.push(fin(s2, Res::U));
        }
        K::Join { t: u } => {
            if s.started[u] && s.pcs[u] as usize == p.threads[u].len() {
                out.push(fin(s.clone(), Res::U));
            }
        }
        _ => panic!("rc11: unsupported op {}", op_text(op)),
    }
    out
}

// rf holds the (t, idx) key of the write, packed: rf = 64 * t' + idx where t' = 63 for init.
fn set_rf(e: &mut Ev, k: (u8, u8)) {
    let t = if k.0 == INIT_T { 63u16 } else { k.0 as u16 };
    assert!(k.1 < 64);
    e.rf = t * 64 + k.1 as u16;
}
fn rf_key(_s: &XSt, e: &Ev) -> (u8, u8) {
    let t = e.rf / 64;
    (if t == 63 { INIT_T } else { t as u8 }, (e.rf % 64) as u8)
}

// ------------------------------------------------------------------------------------------
// axioms
// ------------------------------------------------------------------------------------------

fn compose(a: &Rel, b: &Rel, n: usize) -> Rel {
    let mut r = [0u32; MAXE];
    for i in 0..n {
        let mut row = 0u32;
        let mut x = a[i];
        while x != 0 {
            let j = x.trailing_zeros() as usize;
            x &= x - 1;
            row |= b[j];
        }
        r[i] = row;
    }
    r
}
fn union(a: &Rel, b: &Rel) -> Rel {
    let mut r = *a;
    for i in 0..MAXE {
        r[i] |= b[i];
    }
    r
}
fn closure(a: &Rel, n: usize) -> Rel {
    let mut r = *a;
    for k in 0..n {
        for i in 0..n {
            if r[i] & (1 << k) != 0 {
                r[i] |= r[k];
            }
        }
    }
    r
}
fn irreflexive(a: &Rel, n: usize) -> bool {
    (0..n).all(|i| a[i] & (1 << i) == 0)
}
fn opt(a: &Rel, n: usize) -> Rel {
    let mut r = *a;
    for i in 0..n {
        r[i] |= 1 << i;
    }
    r
}
/// restrict to pairs (i, j) with dom(i) and rng(j)
fn restrict(a: &Rel, dom: u32, rng: u32, n: usize) -> Rel {
    let mut r = [0u32; MAXE];
    for i in 0..n {
        if dom & (1 << i) != 0 {
            r[i] = a[i] & rng;
        }
    }
    r
}

/// Returns (consistent, has_race)
fn check(p: &Program, s: &XSt, _variant: Variant) -> (bool, bool) {
    let evs = &s.evs;
    let n = evs.len();
    assert!(n <= MAXE, "too many events");
    let idx_of = |k: (u8, u8)| evs.iter().position(|e| key(e) == k).unwrap();
    let all: u32 = if n == 32 { u32::MAX } else { (1u32 << n) - 1 };

    // sb (with init before everything) and asw
    let mut sb = [0u32; MAXE];
    let mut asw = [0u32; MAXE];
    for i in 0..n {
        for j in 0..n {
            if i == j {
                continue;
            }
            let (a, b) = (&evs[i], &evs[j]);
            if a.t == INIT_T && b.t != INIT_T {
                sb[i] |= 1 << j;
            } else if a.t != INIT_T && a.t == b.t && a.idx < b.idx {
                sb[i] |= 1 << j;
            }
        }
    }
    for (t, ops) in p.threads.iter().enumerate() {
        for (i, op) in ops.iter().enumerate() {
            // only executed spawn/join ops count
            if s.results[t].get(i).map(|r| *r == Res::Skip).unwrap_or(true) {
                continue;
            }
            match op.k {
                K::Spawn { t: u } => {
                    for a in 0..n {
                        if evs[a].t as usize == t && (evs[a].idx as usize / 2) < i {
                            for b in 0..n {
                                if evs[b].t as usize == u {
                                    asw[a] |= 1 << b;
                                }
                            }
                        }
                    }
                }
                K::Join { t: u } => {
                    for a in 0..n {
                        if evs[a].t as usize == u {
                            for b in 0..n {
                                if evs[b].t as usize == t && (evs[b].idx as usize / 2) > i {
                                    asw[a] |= 1 << b;
                                }
                            }
                        }
                    }
                }
                _ => {}
            }
        }
    }
    // rf, mo
    let mut rf = [0u32; MAXE];
    for j in 0..n {
        if matches!(evs[j].k, EK::R | EK::U) {
            let w = idx_of(rf_key(s, &evs[j]));
            rf[w] |= 1 << j;
        }
    }
    let mut mo = [0u32; MAXE];
    for l in &s.mo {
        for i in 0..l.len() {
            for j in i + 1..l.len() {
                mo[idx_of(l[i])] |= 1 << idx_of(l[j]);
            }
        }
    }
    // rb = rf^-1 ; mo
    let mut rfinv = [0u32; MAXE];
    for i in 0..n {
        let mut x = rf[i];
        while x != 0 {
            let j = x.trailing_zeros() as usize;
            x &= x - 1;
            rfinv[j] |= 1 << i;
        }
    }
    let mut rb = compose(&rfinv, &mo, n);
    for i in 0..n {
        rb[i] &= !(1 << i);
    }
    let eco = closure(&union(&union(&rf, &mo), &rb), n);

    // masks
    let mut m_f = 0u32;
    let mut m_u = 0u32;
    let mut m_w = 0u32; // W ∪ U
    let mut m_r = 0u32; // R ∪ U
    let mut m_rel = 0u32;
    let mut m_acq = 0u32;
    let mut m_sc = 0u32;
    let mut m_fsc = 0u32;
    for i in 0..n {
        let e = &evs[i];
        match e.k {
            EK::F => m_f |= 1 << i,
            EK::U => {
                m_u |= 1 << i;
                m_w |= 1 << i;
                m_r |= 1 << i;
            }
            EK::W => m_w |= 1 << i,
            EK::R => m_r |= 1 << i,
            _ => {}
        }
        if matches!(e.k, EK::R | EK::W | EK::U | EK::F) && e.t != INIT_T {
            if e.mo.is_rel() {
                m_rel |= 1 << i;
            }
            if e.mo.is_acq() {
                m_acq |= 1 << i;
            }
            if e.mo == MO::Sc {
                if e.k == EK::F {
                    m_fsc |= 1 << i;
                } else {
                    m_sc |= 1 << i;
                }
            }
        }
    }
    // atomicity: for U u reading w: no w' with mo(w,w') and mo(w',u)
    for u in 0..n {
        if evs[u].k == EK::U {
            let w = idx_of(rf_key(s, &evs[u]));
            // must be mo-adjacent
            if mo[w] & (1 << u) == 0 {
                return (false, false);
            }
            for x in 0..n {
                if mo[w] & (1 << x) != 0 && mo[x] & (1 << u) != 0 {
                    return (false, false);
                }
            }
        }
    }
    // rs = [W∪U] ; (rf ; [U])*
    let rf_u = restrict(&rf, all, m_u, n);
    let rs = restrict(&opt(&closure(&rf_u, n), n), m_w, all, n);
    // sw = [rel] ; ([F];sb)? ; rs ; rf ; [R∪U] ; (sb;[F])? ; [acq]
    let f_sb = restrict(&sb, m_f, all, n);
    let sb_f = restrict(&sb, all, m_f, n);
    let a1 = restrict(&opt(&f_sb, n), m_rel, all, n);
    let a2 = compose(&a1, &rs, n);
    let a3 = restrict(&compose(&a2, &rf, n), all, m_r, n);
    let a4 = compose(&a3, &opt(&sb_f, n), n);
    let sw = restrict(&a4, all, m_acq, n);
    // a release *store* itself must be the head when there is no fence: [rel] applies to the head
    // event (store/RMW) or to the fence; `a1` = [rel];([F];sb)? handles both since for the
    // no-fence case it is the identity on release events.
    // loom turns the execution order of SeqCst fences into happens-before (defect D11). The
    // attribution variant adds a total order of the SeqCst fences to hb, for every such order;
    // the other variants add nothing.
    let fsc: Vec<usize> = (0..n).filter(|&i| m_fsc & (1 << i) != 0).collect();
    let mut extras: Vec<Rel> = vec![];
    if _variant == Variant::Rc11ScFenceHb && fsc.len() >= 2 && fsc.len() <= 5 {
        let mut perm: Vec<usize> = fsc.clone();
        // all permutations (Heap's algorithm, iterative)
        let k = perm.len();
        let mut c = vec![0usize; k];
        let push = |perm: &Vec<usize>, extras: &mut Vec<Rel>| {
            let mut r = [0u32; MAXE];
            for a in 0..perm.len() {
                for b in a + 1..perm.len() {
                    r[perm[a]] |= 1 << perm[b];
                }
            }
            extras.push(r);
        };
        push(&perm, &mut extras);
        let mut i = 0;
        while i < k {
            if c[i] < i {
                if i % 2 == 0 {
                    perm.swap(0, i);
                } else {
                    perm.swap(c[i], i);
                }
                push(&perm, &mut extras);
                c[i] += 1;
                i = 0;
            } else {
                c[i] = 0;
                i += 1;
            }
        }
    } else {
        extras.push([0u32; MAXE]);
    }
    let mut any_consistent = false;
    // the attribution variant reports a race only if it survives *every* fence order (loom
    // follows the one order it happens to execute; the question is whether some order hides it)
    let mut any_race = false;
    let mut all_race = true;
    for extra in &extras {
        let hb = closure(&union(&union(&sb, &asw), &union(&sw, extra)), n);
        // coherence: irreflexive(hb ; eco?)
        if !irreflexive(&hb, n) {
            continue;
        }
        let hbeco = compose(&hb, &eco, n);
        if !irreflexive(&hbeco, n) {
            continue;
        }
        // SC axiom
        if m_sc | m_fsc != 0 {
            let mut sb_neq = [0u32; MAXE];
            for i in 0..n {
                let mut x = sb[i];
                while x != 0 {
                    let j = x.trailing_zeros() as usize;
                    x &= x - 1;
                    if evs[i].loc == NOLOC || evs[j].loc == NOLOC || evs[i].loc != evs[j].loc {
                        sb_neq[i] |= 1 << j;
                    }
                }
            }
            let mut hb_loc = [0u32; MAXE];
            for i in 0..n {
                let mut x = hb[i];
                while x != 0 {
                    let j = x.trailing_zeros() as usize;
                    x &= x - 1;
                    if evs[i].loc != NOLOC && evs[i].loc == evs[j].loc {
                        hb_loc[i] |= 1 << j;
                    }
                }
            }
            let sbhbsb = compose(&compose(&sb_neq, &hb, n), &sb_neq, n);
            let scb = union(&union(&union(&sb, &sbhbsb), &union(&hb_loc, &mo)), &rb);
            let hbq = opt(&hb, n);
            // left = [Esc] ∪ [Fsc];hb?      right = [Esc] ∪ hb?;[Fsc]
            let mut left = [0u32; MAXE];
            let mut right = [0u32; MAXE];
            for i in 0..n {
                if m_sc & (1 << i) != 0 {
                    left[i] |= 1 << i;
                    right[i] |= 1 << i;
                }
                if m_fsc & (1 << i) != 0 {
                    left[i] |= hbq[i];
                }
                right[i] |= hbq[i] & m_fsc;
            }
            let psc_base = compose(&compose(&left, &scb, n), &right, n);
            let hbecohb = compose(&compose(&hb, &eco, n), &hb, n);
            let psc_f = restrict(&union(&hb, &hbecohb), m_fsc, m_fsc, n);
            let psc = closure(&union(&psc_base, &psc_f), n);
            if !irreflexive(&psc, n) {
                continue;
            }
        }
        // races
        let mut race = false;
        for i in 0..n {
            for j in i + 1..n {
                let (a, b) = (&evs[i], &evs[j]);
                if a.t == b.t || a.t == INIT_T || b.t == INIT_T || a.loc != b.loc || a.loc == NOLOC {
                    continue;
                }
                let na_a = matches!(a.k, EK::NR | EK::NW);
                let na_b = matches!(b.k, EK::NR | EK::NW);
                if !na_a && !na_b {
                    continue;
                }
                let conflict = |x: &Ev, y: &Ev| -> bool {
                    // x is non-atomic
                    match x.k {
                        EK::NW => true,
                        EK::NR => matches!(y.k, EK::W | EK::U | EK::NW),
                        _ => false,
                    }
                };
                let c = (na_a && conflict(a, b)) || (na_b && conflict(b, a));
                if c && hb[i] & (1 << j) == 0 && hb[j] & (1 << i) == 0 {
                    race = true;
                }
            }
        }
        any_consistent = true;
        any_race |= race;
        all_race &= race;
    }
    if _variant == Variant::Rc11ScFenceHb {
        (any_consistent, any_consistent && all_race)
    } else {
        (any_consistent, any_race)
    }
}
