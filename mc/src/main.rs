mod accept;
mod checks;
mod driver;
mod families;
mod fut;
mod ir;
mod litmus;
mod pool;
mod rc11;
mod scm;
mod seqcheck;
mod specs;
mod statics;
mod subject;

fn prog_threads() -> usize {
    5
}

fn usage() -> ! {
    eprintln!("usage: vmc check <Cxx> [--tier quick|thorough] [--emit-findings <file>] | vmc replay <file> | vmc worker | vmc count <Cxx> [--tier t] | vmc litmus");
    std::process::exit(2)
}

fn main() {
    let args: Vec<String> = std::env::args().collect();
    if args.len() < 2 {
        usage();
    }
    let mut tier = std::env::var("VERIF_TIER").unwrap_or_else(|_| "quick".to_string());
    let mut emit: Option<String> = None;
    let mut i = 2;
    let mut pos = vec![];
    while i < args.len() {
        match args[i].as_str() {
            "--tier" => {
                tier = args.get(i + 1).cloned().unwrap_or_else(|| usage());
                i += 2;
            }
            "--emit-findings" => {
                emit = Some(args.get(i + 1).cloned().unwrap_or_else(|| usage()));
                i += 2;
            }
            _ => {
                pos.push(args[i].clone());
                i += 1;
            }
        }
    }
    if tier != "quick" && tier != "thorough" {
        usage();
    }
    match args[1].as_str() {
        "worker" => pool::worker_main(),
        "oneshot" => checks::oneshot_main(),
        "litmus" => {
            let (n, fails) = litmus::self_check();
            println!("litmus: {} tests, {} failures", n, fails.len());
            for f in &fails {
                println!("  {}", f);
            }
            std::process::exit(if fails.is_empty() { 0 } else { 2 });
        }
        "count" => {
            let c = pos.first().cloned().unwrap_or_else(|| usage());
            let s = specs::spec(&c, &tier).unwrap_or_else(|| usage());
            println!("{} {} jobs={}", c, tier, s.jobs.len());
        }
        "check" => {
            let c = pos.first().cloned().unwrap_or_else(|| usage());
            let s = match specs::spec(&c, &tier) {
                Some(s) => s,
                None => {
                    eprintln!("no such check: {}", c);
                    std::process::exit(2)
                }
            };
            // a panic of the driver itself (e.g. the binary was replaced while it ran and no
            // worker can be spawned any more) is a machinery failure, never a verdict
            let code = match std::panic::catch_unwind(std::panic::AssertUnwindSafe(|| driver::run_check(s, &tier, emit.as_deref()))) {
                Ok(c) => c,
                Err(_) => {
                    eprintln!("MACHINERY: the driver panicked");
                    2
                }
            };
            std::process::exit(code);
        }
        "trace" => {
            // print every iteration of a program (from a replay file or a job/program json file)
            let path = pos.first().cloned().unwrap_or_else(|| usage());
            let v: serde_json::Value = serde_json::from_str(&std::fs::read_to_string(&path).expect("read")).expect("json");
            let pv = if !v["job"].is_null() { v["job"]["program"].clone() } else if !v["program"].is_null() { v["program"].clone() } else { v.clone() };
            let prog: ir::Program = serde_json::from_value(pv).expect("program");
            std::panic::set_hook(Box::new(|_| {}));
            println!("{}", prog.text());
            let sink = |it: &subject::IterData| {
                let path: Vec<String> = it
                    .path
                    .iter()
                    .map(|b| match b.kind {
                        loom::verif::BranchKind::Schedule => format!("S{}{:?}", if b.chosen == 255 { "-".to_string() } else { b.chosen.to_string() }, &b.threads[..prog_threads()]),
                        loom::verif::BranchKind::Load => format!("L{}/{}", b.chosen, b.len),
                        loom::verif::BranchKind::Spurious => format!("P{}", b.chosen),
                    })
                    .collect();
                println!("#{} {} {} {}", it.index, ir::fmt_outcome(&it.results), if it.panicked { "PANICKED" } else { "" }, path.join(" "));
            };
            let (sum, _) = subject::run(&prog, &subject::Cfg::default(), sink);
            println!("{:?}", sum);
        }
        "gentest" => {
            // write generated Rust tests for a sample of programs of a check's family (self-check
            // of the generator: compile them in a scratch crate against loom)
            let c = pos.first().cloned().unwrap_or_else(|| usage());
            let n: usize = pos.get(1).and_then(|x| x.parse().ok()).unwrap_or(20);
            let s = specs::spec(&c, &tier).unwrap_or_else(|| usage());
            let step = (s.jobs.len() / n).max(1);
            for j in s.jobs.iter().step_by(step).take(n) {
                println!("{}", ir::rust_test(&j.program));
            }
        }
        "dump" => {
            // print the programs of a check's family whose text contains a substring (json lines)
            let c = pos.first().cloned().unwrap_or_else(|| usage());
            let pat = pos.get(1).cloned().unwrap_or_default();
            let s = specs::spec(&c, &tier).unwrap_or_else(|| usage());
            for j in s.jobs.iter().filter(|j| j.program.text().contains(&pat) || j.program.name.contains(&pat)) {
                if pos.get(2).map(|x| x == "eval").unwrap_or(false) {
                    // reference verdict kinds and loom's verdict, side by side
                    let sc = scm::explore(&j.program, scm::Mode::explore(&j.program), 5_000_000);
                    std::panic::set_hook(Box::new(|_| {}));
                    let show = std::env::var("VMC_SHOW_ITERS").is_ok();
                    let (sum, _) = subject::run(&j.program, &j.cfg, move |it: &subject::IterData| {
                        if show {
                            println!("   iter {}: {}", it.index, checks::iter_sig(it));
                        }
                    });
                    let mut m2 = scm::Mode::explore(&j.program);
                    m2.spur_yield = true;
                    let sc2 = scm::explore(&j.program, m2, 5_000_000);
                    println!("ref_bad={:?} ref_outcomes={} restricted_outcomes={} loom={} iters={} :: {}", sc.bad_kinds(), sc.done.len(), sc2.done.len(), sum.verdict.short(), sum.iterations, j.program.text());
                    if std::env::var("VMC_SHOW_OUTCOMES").is_ok() {
                        for o in &sc.done {
                            println!("   {} {}", if sc2.done.contains(o) { "both      " } else { "full only " }, ir::fmt_outcome(o));
                        }
                    }
                } else {
                    println!("{}", serde_json::to_string(&j.program).unwrap());
                }
            }
        }
        "replay" => {
            let p = pos.first().cloned().unwrap_or_else(|| usage());
            std::process::exit(driver::replay(&p));
        }
        _ => usage(),
    }
}
