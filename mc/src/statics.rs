//! loom thread-locals and lazy statics used by the STAT family (C17, also C13/C16).
//!
//! Every initialiser / destructor leaves a note (kind, key, thread) in the iteration record:
//!   10 tls init, 11 tls drop, 12 try_with inside a destructor (b = 1 if AccessError),
//!   13 privacy check (b = 1 if the value read back belongs to another thread),
//!   20 lazy init, 21 lazy drop, 22 lazy address (b = address)
//! The running loom thread is identified through hook H2 (`fingerprint()[2]`), which works in
//! initialisers and destructors alike.

use crate::ir::Res;
use crate::subject::note;

fn me() -> u64 {
    loom::verif::fingerprint()[2] as u64
}

pub struct TlsVal {
    key: usize,
    flavour: bool,
    owner: u64,
    /// the loom-op flavour also owns a loom object whose `Drop` needs the execution
    _arc: Option<loom::sync::Arc<u8>>,
}

impl TlsVal {
    fn new(key: usize, flavour: bool) -> TlsVal {
        let owner = me();
        note(10, (key + if flavour { 2 } else { 0 }) as u64, owner);
        if flavour {
            loom::thread::yield_now();
        }
        TlsVal { key, flavour, owner, _arc: if flavour { Some(loom::sync::Arc::new(0)) } else { None } }
    }
}

impl Drop for TlsVal {
    fn drop(&mut self) {
        let k = (self.key + if self.flavour { 2 } else { 0 }) as u64;
        // thread + 100 * (number of ops completed so far): lets the oracle order the destructor
        // after the owning thread's last op
        note(11, k, me() + 100 * crate::subject::hist_len());
        if self.flavour {
            loom::thread::yield_now();
        }
        // a key of this thread that is already destroyed must report AccessError
        let r = match (self.flavour, self.key) {
            (false, 0) => TLS_P0.try_with(|_| ()),
            (false, _) => TLS_P1.try_with(|_| ()),
            (true, 0) => TLS_L0.try_with(|_| ()),
            (true, _) => TLS_L1.try_with(|_| ()),
        };
        note(12, k, r.is_err() as u64);
    }
}

loom::thread_local! {
    static TLS_P0: TlsVal = TlsVal::new(0, false);
    static TLS_P1: TlsVal = TlsVal::new(1, false);
    static TLS_L0: TlsVal = TlsVal::new(0, true);
    static TLS_L1: TlsVal = TlsVal::new(1, true);
}

fn tls_inits(k: u64, th: u64) -> usize {
    crate::subject::count_notes(10, k, th)
}

fn with_key<R>(flavour: bool, k: usize, f: impl FnOnce(&TlsVal) -> R) -> R {
    match (flavour, k) {
        (false, 0) => TLS_P0.with(f),
        (false, _) => TLS_P1.with(f),
        (true, 0) => TLS_L0.with(f),
        (true, _) => TLS_L1.with(f),
    }
}

pub fn tls_with(flavour: bool, k: usize) -> Res {
    let id = (k + if flavour { 2 } else { 0 }) as u64;
    let th = me();
    let before = tls_inits(id, th);
    with_key(flavour, k, |v| note(13, id, (v.owner != th) as u64));
    let after = tls_inits(id, th);
    Res::V((after > before) as u64)
}

pub fn tls_nested(f1: bool, k: usize, f2: bool, k2: usize) -> Res {
    let (id1, id2) = ((k + if f1 { 2 } else { 0 }) as u64, (k2 + if f2 { 2 } else { 0 }) as u64);
    let th = me();
    let (b1, b2) = (tls_inits(id1, th), tls_inits(id2, th));
    with_key(f1, k, |v| {
        note(13, id1, (v.owner != th) as u64);
        with_key(f2, k2, |w| note(13, id2, (w.owner != th) as u64));
    });
    let (a1, a2) = (tls_inits(id1, th), tls_inits(id2, th));
    Res::V((a1 > b1) as u64 * 2 + (a2 > b2) as u64)
}

pub struct LzVal {
    key: usize,
    flavour: bool,
    cell: loom::cell::UnsafeCell<u64>,
    _arc: Option<loom::sync::Arc<u8>>,
}

impl LzVal {
    fn new(key: usize, flavour: bool) -> LzVal {
        let k = (key + if flavour { 2 } else { 0 }) as u64;
        note(20, k, me());
        let cell = loom::cell::UnsafeCell::new(0);
        if flavour {
            loom::thread::yield_now();
        }
        cell.with_mut(|p| unsafe { *p = 1 });
        LzVal { key, flavour, cell, _arc: if flavour { Some(loom::sync::Arc::new(0)) } else { None } }
    }
}

impl Drop for LzVal {
    fn drop(&mut self) {
        note(21, (self.key + if self.flavour { 2 } else { 0 }) as u64, 0);
    }
}

loom::lazy_static! {
    static ref LZ_P0: LzVal = LzVal::new(0, false);
    static ref LZ_P1: LzVal = LzVal::new(1, false);
    static ref LZ_L0: LzVal = LzVal::new(0, true);
    static ref LZ_L1: LzVal = LzVal::new(1, true);
}

pub fn lazy_get(flavour: bool, k: usize) -> Res {
    let id = (k + if flavour { 2 } else { 0 }) as u64;
    let before = crate::subject::count_notes_kind(20, id);
    let v: &LzVal = match (flavour, k) {
        (false, 0) => &LZ_P0,
        (false, _) => &LZ_P1,
        (true, 0) => &LZ_L0,
        (true, _) => &LZ_L1,
    };
    note(22, id, v as *const LzVal as u64);
    // the initialiser's write to the cell must happen-before this read
    v.cell.with(|p| unsafe { std::ptr::read_volatile(p) });
    let after = crate::subject::count_notes_kind(20, id);
    Res::V((after > before) as u64)
}

// ------------------------------------------------------------------------------------------
// hand-written models for C16: an initialiser that fails in some iterations (the panic is caught
// inside the model) must leave nothing behind for the next iteration
// ------------------------------------------------------------------------------------------

thread_local! {
    static INIT_FAILS: std::cell::Cell<bool> = const { std::cell::Cell::new(false) };
}

loom::lazy_static! {
    static ref LZ_MAY_FAIL: u64 = {
        if INIT_FAILS.with(|f| f.get()) {
            panic!("VMC lazy initialiser fails in this iteration");
        }
        7
    };
}

loom::thread_local! {
    static TLS_MAY_FAIL: u64 = {
        if INIT_FAILS.with(|f| f.get()) {
            panic!("VMC thread-local initialiser fails in this iteration");
        }
        7
    };
}

/// One iteration of a custom model; returns a short signature of what happened.
/// `which`: 0 = lazy static touched by main, 1 = lazy static touched by a spawned thread,
/// 2 = thread-local touched by main. Whether the initialiser fails depends on a race.
pub fn failing_init_model(which: usize) -> String {
    use loom::sync::atomic::{AtomicUsize, Ordering::SeqCst};
    let a = loom::sync::Arc::new(AtomicUsize::new(0));
    let a2 = a.clone();
    let t = loom::thread::spawn(move || a2.store(1, SeqCst));
    let fails = a.load(SeqCst) == 1;
    let touch = move || -> String {
        INIT_FAILS.with(|f| f.set(fails));
        let r = std::panic::catch_unwind(|| if which == 2 { TLS_MAY_FAIL.with(|v| *v) } else { *LZ_MAY_FAIL });
        INIT_FAILS.with(|f| f.set(false));
        match r {
            Ok(v) => format!("ok{}", v),
            Err(_) => "init-panicked".to_string(),
        }
    };
    let sig = if which == 1 {
        loom::thread::spawn(touch).join().unwrap()
    } else {
        touch()
    };
    t.join().unwrap();
    format!("fails={} {}", fails, sig)
}

// ------------------------------------------------------------------------------------------
// hand-written failing models for C06: a destructor that runs during the unwind of the failing
// thread waits for another thread (yield / park / spin lock). The failure must still reach the
// caller of `loom::model` - no hang, no abort - and a later model must run normally.
// ------------------------------------------------------------------------------------------

pub const CUSTOM_C06: usize = 3;

struct WaitsInDrop {
    flag: loom::sync::Arc<loom::sync::atomic::AtomicUsize>,
    how: usize,
}

impl Drop for WaitsInDrop {
    fn drop(&mut self) {
        use loom::sync::atomic::Ordering::{AcqRel, Acquire, Release};
        match self.how {
            0 => {
                while self.flag.load(Acquire) == 0 {
                    loom::thread::yield_now();
                }
            }
            1 => {
                while self.flag.load(Acquire) == 0 {
                    loom::thread::park();
                }
            }
            _ => {
                // a spin lock (value 2 = held): take it and release it
                while self.flag.swap(2, AcqRel) == 2 {
                    loom::hint::spin_loop();
                }
                self.flag.store(1, Release);
            }
        }
    }
}

/// Runs failing model `which` under `catch_unwind`, then a small passing model; returns
/// (message of the first, iterations of the second).
pub fn failing_drop_waits_model(which: usize) -> (String, usize) {
    use loom::sync::atomic::{AtomicUsize, Ordering::*};
    let r = std::panic::catch_unwind(move || {
        loom::model(move || {
            let flag = loom::sync::Arc::new(AtomicUsize::new(0));
            let f2 = flag.clone();
            let main = loom::thread::current();
            let t = loom::thread::spawn(move || match which {
                0 => f2.store(1, Release),
                1 => {
                    f2.store(1, Release);
                    main.unpark();
                }
                _ => {
                    // critical section of the spin lock
                    while f2.swap(2, AcqRel) == 2 {
                        loom::hint::spin_loop();
                    }
                    f2.store(1, Release);
                }
            });
            let w = WaitsInDrop { flag: flag.clone(), how: which };
            // the failure: for the spin lock only while the worker is inside its critical section
            if which < 2 || flag.load(Acquire) == 2 {
                panic!("VMC custom failure {}", which);
            }
            drop(w);
            t.join().unwrap();
        })
    });
    let msg = match r {
        Ok(()) => "no failure".to_string(),
        Err(p) => p.downcast_ref::<&str>().map(|s| s.to_string()).or_else(|| p.downcast_ref::<String>().cloned()).unwrap_or_default(),
    };
    // a later model in the same process
    let n = std::sync::Arc::new(std::sync::atomic::AtomicUsize::new(0));
    let n2 = n.clone();
    loom::model(move || {
        n2.fetch_add(1, std::sync::atomic::Ordering::SeqCst);
        let a = loom::sync::Arc::new(AtomicUsize::new(0));
        let a2 = a.clone();
        let t = loom::thread::spawn(move || a2.fetch_add(1, SeqCst));
        a.fetch_add(1, SeqCst);
        t.join().unwrap();
    });
    (msg, n.load(std::sync::atomic::Ordering::SeqCst))
}

// ------------------------------------------------------------------------------------------
// hand-written models for C17: a thread-local that is first touched by another thread-local's
// destructor, during the teardown of its thread, is still initialised once and dropped once.
// Counted with process-wide counters: the late value is dropped when its `Thread` is dropped,
// which can be after the iteration's record is closed.
// ------------------------------------------------------------------------------------------

pub static LATE_INITS: std::sync::atomic::AtomicUsize = std::sync::atomic::AtomicUsize::new(0);
pub static LATE_DROPS: std::sync::atomic::AtomicUsize = std::sync::atomic::AtomicUsize::new(0);
pub static EARLY_INITS: std::sync::atomic::AtomicUsize = std::sync::atomic::AtomicUsize::new(0);
pub static EARLY_DROPS: std::sync::atomic::AtomicUsize = std::sync::atomic::AtomicUsize::new(0);

struct Late;
impl Drop for Late {
    fn drop(&mut self) {
        LATE_DROPS.fetch_add(1, std::sync::atomic::Ordering::SeqCst);
    }
}
struct Early;
impl Drop for Early {
    fn drop(&mut self) {
        EARLY_DROPS.fetch_add(1, std::sync::atomic::Ordering::SeqCst);
        // first access to LATE by this thread: it is created during the teardown
        let _ = TLS_LATE.try_with(|_| ());
    }
}

loom::thread_local! {
    static TLS_LATE: Late = { LATE_INITS.fetch_add(1, std::sync::atomic::Ordering::SeqCst); Late };
    static TLS_EARLY: Early = { EARLY_INITS.fetch_add(1, std::sync::atomic::Ordering::SeqCst); Early };
}

/// `which`: 0 = a spawned thread uses EARLY, 1 = main uses EARLY, 2 = both, next to a race that
/// gives several iterations.
pub fn tls_teardown_model(which: usize) {
    use loom::sync::atomic::{AtomicUsize, Ordering::SeqCst};
    let a = loom::sync::Arc::new(AtomicUsize::new(0));
    let a2 = a.clone();
    let t = loom::thread::spawn(move || {
        if which != 1 {
            TLS_EARLY.with(|_| ());
        }
        a2.fetch_add(1, SeqCst);
    });
    if which != 0 {
        TLS_EARLY.with(|_| ());
    }
    a.fetch_add(1, SeqCst);
    t.join().unwrap();
}

// ------------------------------------------------------------------------------------------
// hand-written models for C17: nesting. A lazy static whose initialiser (with a scheduling point)
// reads another lazy static, raced by a second thread; a thread-local whose initialiser reads
// another thread-local. Each is initialised exactly once per execution / per thread.
// ------------------------------------------------------------------------------------------

pub static OUTER_INITS: std::sync::atomic::AtomicUsize = std::sync::atomic::AtomicUsize::new(0);
pub static INNER_INITS: std::sync::atomic::AtomicUsize = std::sync::atomic::AtomicUsize::new(0);
pub static NEST_A_INITS: std::sync::atomic::AtomicUsize = std::sync::atomic::AtomicUsize::new(0);
pub static NEST_B_INITS: std::sync::atomic::AtomicUsize = std::sync::atomic::AtomicUsize::new(0);

loom::lazy_static! {
    static ref LZ_INNER: u64 = {
        INNER_INITS.fetch_add(1, std::sync::atomic::Ordering::SeqCst);
        loom::thread::yield_now();
        5
    };
    static ref LZ_OUTER: u64 = {
        OUTER_INITS.fetch_add(1, std::sync::atomic::Ordering::SeqCst);
        loom::thread::yield_now();
        let v = *LZ_INNER + 1;
        loom::thread::yield_now();
        v
    };
}

loom::thread_local! {
    static TLS_NEST_B: u64 = { NEST_B_INITS.fetch_add(1, std::sync::atomic::Ordering::SeqCst); 2 };
    static TLS_NEST_A: u64 = {
        NEST_A_INITS.fetch_add(1, std::sync::atomic::Ordering::SeqCst);
        TLS_NEST_B.with(|b| *b + 1)
    };
}

/// `which` 3: two or three threads read OUTER (and one of them INNER directly); 4: every thread
/// reads A (whose initialiser reads B), then B, then A again, also nested inside `with`.
/// Returns the number of threads that ran.
pub fn nesting_model(which: usize) -> usize {
    if which == 3 {
        // two threads, OUTER only: whoever initialises OUTER initialises INNER inside it
        let t1 = loom::thread::spawn(|| assert_eq!(*LZ_OUTER, 6));
        assert_eq!(*LZ_OUTER, 6);
        t1.join().unwrap();
        2
    } else if which == 5 {
        // three threads; one of them also reads INNER directly, before or after OUTER
        let t1 = loom::thread::spawn(|| assert_eq!(*LZ_OUTER, 6));
        let t2 = loom::thread::spawn(|| {
            assert_eq!(*LZ_OUTER, 6);
            assert_eq!(*LZ_INNER, 5);
        });
        assert_eq!(*LZ_INNER, 5);
        assert_eq!(*LZ_OUTER, 6);
        t1.join().unwrap();
        t2.join().unwrap();
        3
    } else {
        let body = || {
            assert_eq!(TLS_NEST_A.with(|a| *a), 3);
            assert_eq!(TLS_NEST_B.with(|b| *b), 2);
            assert_eq!(TLS_NEST_A.with(|a| TLS_NEST_B.with(|b| *a + *b)), 5);
            assert_eq!(TLS_NEST_A.with(|a| TLS_NEST_A.with(|a2| *a + *a2)), 6);
        };
        let t1 = loom::thread::spawn(body);
        body();
        t1.join().unwrap();
        2
    }
}

// ------------------------------------------------------------------------------------------
// hand-written models for C07: a read guard of a loom RwLock that is dropped by a panic which the
// model itself catches. The lock must be free afterwards: `try_write` succeeds, a blocking
// `write` in another thread is not a deadlock, the protected value is the one last written.
// (Read guards only: a std lock is not poisoned by a panicking reader either.)
// ------------------------------------------------------------------------------------------

pub const CUSTOM_C07: usize = 3;

/// Returns a signature of what happened in this iteration ("ok ..." when everything is as
/// expected).
pub fn rwlock_caught_panic_model(which: usize) -> String {
    use loom::sync::atomic::{AtomicUsize, Ordering::SeqCst};
    let l = loom::sync::Arc::new(loom::sync::RwLock::new(5u64));
    let a = loom::sync::Arc::new(AtomicUsize::new(0));
    let reader_panics = |l: &loom::sync::RwLock<u64>| {
        let r = std::panic::catch_unwind(std::panic::AssertUnwindSafe(|| {
            let g = l.read().unwrap();
            if *g == 5 {
                panic!("VMC reader gives up while it holds the read guard");
            }
        }));
        r.is_err()
    };
    match which {
        0 => {
            // main reads and panics (caught); a child races on an atomic (several iterations);
            // then main takes the write lock without blocking
            let a2 = a.clone();
            let t = loom::thread::spawn(move || a2.store(1, SeqCst));
            let _ = a.load(SeqCst);
            let panicked = reader_panics(&l);
            let w = match l.try_write() {
                Ok(mut g) => {
                    *g = 6;
                    true
                }
                Err(_) => false,
            };
            t.join().unwrap();
            let v = *l.read().unwrap();
            format!("{} panicked={} try_write={} value={}", if panicked && w && v == 6 { "ok" } else { "BAD" }, panicked, w, v)
        }
        1 => {
            // the reader that panics is a child; a second child blocks in write(); main reads
            let l1 = l.clone();
            let t1 = loom::thread::spawn(move || reader_panics(&l1));
            let l2 = l.clone();
            let t2 = loom::thread::spawn(move || {
                *l2.write().unwrap() = 6;
            });
            let panicked = t1.join().unwrap();
            t2.join().unwrap();
            let v = *l.read().unwrap();
            // the reader saw 5 (and panicked) or 6 (and did not)
            format!("{} value={}", if v == 6 { "ok" } else { "BAD" }, v) + if panicked { " reader-panicked" } else { " reader-passed" }
        }
        _ => {
            // two readers overlap, one of them panics; then try_write once both are gone
            let l1 = l.clone();
            let t1 = loom::thread::spawn(move || reader_panics(&l1));
            let g = l.read().unwrap();
            let seen = *g;
            drop(g);
            let panicked = t1.join().unwrap();
            let w = l.try_write().is_ok();
            format!("{} seen={} panicked={} try_write={}", if panicked && w && seen == 5 { "ok" } else { "BAD" }, seen, panicked, w)
        }
    }
}
