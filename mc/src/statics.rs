//! loom thread-locals and lazy statics used by the STAT family (filled in later).
use crate::ir::Res;

pub fn tls_with(_loomop: bool, _k: usize) -> Res {
    unimplemented!("STAT family")
}
pub fn tls_nested(_f1: bool, _k: usize, _f2: bool, _k2: usize) -> Res {
    unimplemented!("STAT family")
}
pub fn lazy_get(_loomop: bool, _k: usize) -> Res {
    unimplemented!("STAT family")
}
