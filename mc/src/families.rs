//! Program families: exhaustive generators by size level, smallest first, modulo symmetry
//! (child threads are unordered, objects of one kind are interchangeable).

use crate::ir::MO::*;
use crate::ir::*;
use std::collections::HashSet;

/// All sequences over `alpha` of length 1..=maxlen
pub fn seqs(alpha: &[Op], maxlen: usize) -> Vec<Vec<Op>> {
    let mut out: Vec<Vec<Op>> = vec![];
    let mut cur: Vec<Vec<Op>> = vec![vec![]];
    for _ in 0..maxlen {
        let mut nxt = vec![];
        for s in &cur {
            for a in alpha {
                let mut s2 = s.clone();
                s2.push(a.clone());
                nxt.push(s2);
            }
        }
        out.extend(nxt.iter().cloned());
        cur = nxt;
    }
    out
}

/// All multisets of `k` threads from `pool` (indices non-decreasing) with total length <= max_total
pub fn thread_sets(pool: &[Vec<Op>], k: usize, max_total: usize) -> Vec<Vec<Vec<Op>>> {
    fn rec(pool: &[Vec<Op>], k: usize, start: usize, left: usize, cur: &mut Vec<usize>, out: &mut Vec<Vec<Vec<Op>>>) {
        if cur.len() == k {
            out.push(cur.iter().map(|&i| pool[i].clone()).collect());
            return;
        }
        for i in start..pool.len() {
            if pool[i].len() > left {
                continue;
            }
            cur.push(i);
            rec(pool, k, i, left - pool[i].len(), cur, out);
            cur.pop();
        }
    }
    let mut out = vec![];
    rec(pool, k, 0, max_total, &mut vec![], &mut out);
    out
}

fn atomic_of(k: &K) -> Option<usize> {
    match *k {
        K::Load { a, .. } | K::Store { a, .. } | K::Swap { a, .. } | K::FetchAdd { a, .. } | K::Cas { a, .. } | K::UnsyncLoad { a } | K::WithMut { a } | K::Await { a, .. } | K::AwaitSpun { a, .. } => Some(a),
        _ => None,
    }
}

fn set_atomic(k: &mut K, n: usize) {
    match k {
        K::Load { a, .. } | K::Store { a, .. } | K::Swap { a, .. } | K::FetchAdd { a, .. } | K::Cas { a, .. } | K::UnsyncLoad { a } | K::WithMut { a } | K::Await { a, .. } | K::AwaitSpun { a, .. } => *a = n,
        _ => {}
    }
}

/// Canonical form of a set of child threads over atomics: sort the threads, rename atomics in
/// first-use order, then number the written values in order of appearance.
/// Placeholder values: stores/swaps/cas-new use 0 and are numbered here; `FetchAdd` with v = 0
/// stays a pure read; other `FetchAdd`s get distinct multiples of 16.
pub fn canon_atomic_children(mut ch: Vec<Vec<Op>>, nat: usize) -> Vec<Vec<Op>> {
    // iterate: sorting depends on names, names depend on order; two rounds reach a fixpoint for
    // the sizes used here (and any fixpoint is a valid representative since we dedupe by text)
    for _ in 0..3 {
        ch.sort();
        let mut map: Vec<Option<usize>> = vec![None; nat];
        let mut next = 0;
        for op in ch.iter().flatten() {
            if let Some(a) = atomic_of(&op.k) {
                if map[a].is_none() {
                    map[a] = Some(next);
                    next += 1;
                }
            }
        }
        for op in ch.iter_mut().flatten() {
            if let Some(a) = atomic_of(&op.k) {
                set_atomic(&mut op.k, map[a].unwrap());
            }
        }
    }
    ch.sort();
    let mut v = 0u64;
    let mut f = 0u64;
    for op in ch.iter_mut().flatten() {
        match &mut op.k {
            K::Store { v: x, .. } | K::Swap { v: x, .. } => {
                v += 1;
                *x = v;
            }
            K::Cas { new, .. } => {
                v += 1;
                *new = v;
            }
            K::FetchAdd { v: x, .. } if *x != 0 => {
                f += 1;
                *x = 16 * f;
            }
            _ => {}
        }
    }
    ch
}

fn used_atomics(ch: &[Vec<Op>]) -> usize {
    ch.iter().flatten().filter_map(|op| atomic_of(&op.k)).max().map(|m| m + 1).unwrap_or(0)
}

/// Every location must be touched by at least two threads and written at least once
fn interesting(ch: &[Vec<Op>], nat: usize) -> bool {
    for a in 0..nat {
        let touching = ch.iter().filter(|t| t.iter().any(|op| atomic_of(&op.k) == Some(a))).count();
        let written = ch.iter().flatten().any(|op| atomic_of(&op.k) == Some(a) && !matches!(op.k, K::Load { .. }));
        if touching < 2 || !written {
            return false;
        }
    }
    true
}

fn finish_atomic_program(name: &str, ch: Vec<Vec<Op>>, final_mo: MO) -> Program {
    let nat = used_atomics(&ch);
    let tail: Vec<Op> = (0..nat).map(|a| ld(a, final_mo)).collect();
    with_main(name, atomics(nat), vec![], ch, vec![], tail)
}

/// Family A-sc: all SeqCst; `rmw_only` replaces loads by `fetch_add 0` and stores by swaps.
pub fn a_sc(nat: usize, nthreads: usize, maxlen: usize, max_total: usize, rmw_only: bool) -> Vec<Program> {
    let mut alpha: Vec<Op> = vec![];
    for a in 0..nat {
        if rmw_only {
            alpha.push(fadd(a, 0, Sc));
            alpha.push(swap(a, 0, Sc));
            alpha.push(fadd(a, 1, Sc));
        } else {
            alpha.push(ld(a, Sc));
            alpha.push(st(a, 0, Sc));
            alpha.push(swap(a, 0, Sc));
            alpha.push(fadd(a, 1, Sc));
            alpha.push(cas(a, 0, 0, Sc, Sc));
        }
    }
    let pool = seqs(&alpha, maxlen);
    let mut seen = HashSet::new();
    let mut out = vec![];
    for ch in thread_sets(&pool, nthreads, max_total) {
        if !interesting(&ch, nat) {
            continue;
        }
        let ch = canon_atomic_children(ch, nat);
        let p = finish_atomic_program(if rmw_only { "A-sc-rmw" } else { "A-sc" }, ch, Sc);
        if seen.insert(p.text()) {
            out.push(p);
        }
    }
    out
}

/// Family LIT: loads / stores / RMWs / fences with every ordering combination.
/// `full_orders`: all five RMW orderings and AcqRel fences; otherwise a reduced set.
pub fn lit(nat: usize, nthreads: usize, maxlen: usize, max_total: usize, full_orders: bool, with_cas: bool) -> Vec<Program> {
    let mut alpha: Vec<Op> = vec![];
    let rmws: &[MO] = if full_orders { &MO::RMWS } else { &[Rlx, AcqRel, Sc] };
    let fences: &[MO] = if full_orders { &MO::FENCES } else { &[Acq, Rel, Sc] };
    for a in 0..nat {
        for &m in &MO::LOADS {
            alpha.push(ld(a, m));
        }
        for &m in &MO::STORES {
            alpha.push(st(a, 0, m));
        }
        for &m in rmws {
            alpha.push(fadd(a, 1, m));
        }
        if with_cas {
            for &m in rmws {
                // expecting the initial value: succeeds or fails depending on what it reads
                alpha.push(cas(a, 0, 0, m, if m == Sc { Sc } else if m.is_acq() { Acq } else { Rlx }));
            }
        }
    }
    for &m in fences {
        alpha.push(fence(m));
    }
    let pool: Vec<Vec<Op>> = seqs(&alpha, maxlen)
        .into_iter()
        // a thread consisting only of fences observes nothing
        .filter(|s| s.iter().any(|op| !matches!(op.k, K::Fence { .. })))
        .collect();
    let mut seen = HashSet::new();
    let mut out = vec![];
    for ch in thread_sets(&pool, nthreads, max_total) {
        if !interesting(&ch, nat) {
            continue;
        }
        let ch = canon_atomic_children(ch, nat);
        let p = finish_atomic_program("LIT", ch, Rlx);
        if seen.insert(p.text()) {
            out.push(p);
        }
    }
    out
}

/// The classic shapes with every ordering assignment (sentinel S24) and the defect sentinels.
pub fn lit_sentinels() -> Vec<Program> {
    let mut out = vec![];
    let mk = |name: &str, nat: usize, ch: Vec<Vec<Op>>| with_main(name, atomics(nat), vec![], ch, vec![], (0..nat).map(|a| ld(a, Rlx)).collect());
    for &s in &MO::STORES {
        for &l in &MO::LOADS {
            out.push(mk("S24-SB", 2, vec![vec![st(0, 1, s), ld(1, l)], vec![st(1, 1, s), ld(0, l)]]));
            out.push(mk("S24-MP", 2, vec![vec![st(0, 1, Rlx), st(1, 1, s)], vec![ld(1, l), ld(0, Rlx)]]));
            out.push(mk("S24-CoRR", 1, vec![vec![st(0, 1, s)], vec![st(0, 2, s)], vec![ld(0, l), ld(0, l)]]));
            out.push(mk("S24-WRC", 2, vec![vec![st(0, 1, s)], vec![ld(0, l), st(1, 1, s)], vec![ld(1, l), ld(0, l)]]));
        }
        out.push(mk("S24-2+2W", 2, vec![vec![st(0, 1, s), st(1, 2, s)], vec![st(1, 1, s), st(0, 2, s)]]));
    }
    for &f in &[Acq, Rel, AcqRel, Sc] {
        out.push(mk("S24-SB+F", 2, vec![vec![st(0, 1, Rlx), fence(f), ld(1, Rlx)], vec![st(1, 1, Rlx), fence(f), ld(0, Rlx)]]));
        out.push(mk("S24-MP+F", 2, vec![vec![st(0, 1, Rlx), fence(f), st(1, 1, Rlx)], vec![ld(1, Rlx), fence(f), ld(0, Rlx)]]));
    }
    // S25 release sequence through a foreign RMW
    for &u in &MO::RMWS {
        out.push(mk("S25-relseq", 2, vec![vec![st(0, 1, Rlx), st(1, 1, Rel)], vec![fadd(1, 16, u)], vec![ld(1, Acq), ld(0, Rlx)]]));
    }
    // S26 the C02 example
    out.push(mk("S26-acqfence", 3, vec![vec![st(0, 1, Rlx), st(1, 1, Rel)], vec![ld(1, Rlx), st(2, 1, Rel)], vec![ld(2, Acq), fence(Acq), ld(0, Rlx)]]));
    // S27 the C03 examples
    out.push(mk("S27-coh", 1, vec![vec![st(0, 1, Rlx), st(0, 2, Rlx)], vec![st(0, 3, Rlx), ld(0, Rlx)]]));
    out.push(mk("S27-rmw", 1, vec![vec![st(0, 1, Rlx)], vec![swap(0, 2, Rlx)]]));
    // D12, D16, RMW store buffering
    out.push(mk("S-D12", 2, vec![vec![st(0, 1, Rlx), st(1, 1, Rlx)], vec![ld(1, Rlx), cas(0, 7, 9, Rlx, Rlx)]]));
    out.push(mk("S-D16", 2, vec![vec![st(0, 1, Sc), st(0, 2, Sc), st(1, 1, Rlx)], vec![ld(1, Rlx), ld(0, Sc)]]));
    out.push(mk("S-SB-rmw", 2, vec![vec![st(0, 1, Rlx), fadd(1, 0, Rlx)], vec![st(1, 1, Rlx), fadd(0, 0, Rlx)]]));
    // IRIW
    for &(s, l) in &[(Rlx, Rlx), (Rel, Acq), (Sc, Sc)] {
        out.push(mk("S24-IRIW", 2, vec![vec![st(0, 1, s)], vec![st(1, 1, s)], vec![ld(0, l), ld(1, l)], vec![ld(1, l), ld(0, l)]]));
    }
    // RWC+syncs / W+RWC from tests/fence.rs
    out.push(mk("S-RWC+syncs", 2, vec![vec![st(0, 1, Rlx)], vec![ld(0, Rlx), fence(Sc), ld(1, Rlx)], vec![st(1, 1, Rlx), fence(Sc), ld(0, Rlx)]]));
    out.push(mk("S-W+RWC", 3, vec![vec![st(0, 1, Rlx), st(2, 1, Rel)], vec![ld(2, Acq), fence(Sc), ld(1, Rlx)], vec![st(1, 1, Rlx), fence(Sc), ld(0, Rlx)]]));
    // message passing where the flag is read by a compare_exchange, every (success, failure)
    // ordering pair, expecting the initial value (fails on the flag) or the flag value (succeeds)
    for &st_o in &MO::STORES {
        for &sc in &MO::RMWS {
            for &fc in &MO::LOADS {
                for exp in [0u64, 1] {
                    out.push(mk("S-MP-cas", 2, vec![vec![st(0, 1, Rlx), st(1, 1, st_o)], vec![cas(1, exp, 9, sc, fc), ld(0, Rlx)]]));
                }
                if st_o == Rel {
                    // two hops: the CAS thread republishes with a release store
                    out.push(mk("S-MP-cas-2hop", 3, vec![vec![st(0, 1, Rlx), st(1, 1, Rel)], vec![cas(1, 0, 9, sc, fc), st(2, 1, Rel)], vec![ld(2, Acq), ld(0, Rlx)]]));
                }
            }
        }
    }
    // RWC / W+RWC / handed-over store buffering with every fence strength and with the fence
    // also acting as the acquire (release) of a relaxed access next to it
    for &f2 in &MO::FENCES {
        for &f3 in &[Sc, AcqRel] {
            for &l in &MO::LOADS {
                for &st_o in &[Rlx, Rel] {
                    out.push(mk("S-W+RWC-var", 3, vec![vec![st(0, 1, Rlx), st(2, 1, st_o)], vec![ld(2, l), fence(f2), ld(1, Rlx)], vec![st(1, 1, Rlx), fence(f3), ld(0, Rlx)]]));
                }
                out.push(mk("S-RWC-var", 2, vec![vec![st(0, 1, Rlx)], vec![ld(0, l), fence(f2), ld(1, Rlx)], vec![st(1, 1, Rlx), fence(f3), ld(0, Rlx)]]));
            }
        }
    }
    // S28: history ring overflow (more stores to one location than the tracked history holds);
    // soundness only (C02's proviso excludes them, C03 checks every iteration that runs)
    out.push(mk("S28-overflow", 1, vec![(1..=9).map(|v| st(0, v, Rlx)).collect(), vec![ld(0, Rlx), ld(0, Rlx)]]));
    for k in [7u64, 8, 10] {
        for &l in &[Rlx, Acq] {
            out.push(mk("S28-overflow", 1, vec![(1..=k).map(|v| st(0, v, if v % 2 == 0 { Rel } else { Rlx })).collect(), vec![ld(0, l), ld(0, l)]]));
            out.push(mk("S28-overflow-rmw", 1, vec![(1..=k).map(|v| st(0, v, Rlx)).collect(), vec![ld(0, l), fadd(0, 16, Rlx)]]));
        }
    }
    // two writers sharing the overflow
    out.push(mk("S28-overflow-2w", 1, vec![(1..=4).map(|v| st(0, v, Rlx)).collect(), (5..=8).map(|v| st(0, v, Rlx)).collect(), vec![ld(0, Rlx), ld(0, Rlx)]]));
    out
}

/// Sentinels for the interleaving oracle
pub fn asc_sentinels() -> Vec<Program> {
    let mk = |name: &str, nat: usize, ch: Vec<Vec<Op>>| with_main(name, atomics(nat), vec![], ch, vec![], (0..nat).map(|a| ld(a, Sc)).collect());
    vec![
        // S01 (D1)
        mk("S01", 1, vec![vec![st(0, 1, Sc), ld(0, Sc)], vec![ld(0, Sc), st(0, 2, Sc)]]),
        // S02 RMW-only, three threads
        mk("S02", 1, vec![vec![swap(0, 1, Sc)], vec![swap(0, 2, Sc)], vec![fadd(0, 0, Sc), fadd(0, 0, Sc)]]),
        // S03 independence
        mk("S03", 2, vec![vec![swap(0, 1, Sc), fadd(0, 0, Sc)], vec![fadd(0, 0, Sc), swap(0, 2, Sc)], vec![swap(1, 3, Sc)]]),
    ]
}

// ------------------------------------------------------------------------------------------
// generic canonicalisation over object kinds
// ------------------------------------------------------------------------------------------

/// (kind, index) references of an op; kinds: 0 atomic, 1 mutex, 2 rwlock, 3 condvar, 4 notify,
/// 5 chan, 6 cell
fn obj_refs(k: &mut K) -> Vec<(u8, &mut usize)> {
    match k {
        K::Load { a, .. } | K::Store { a, .. } | K::Swap { a, .. } | K::FetchAdd { a, .. } | K::Cas { a, .. } | K::UnsyncLoad { a } | K::WithMut { a } | K::Await { a, .. } | K::AwaitSpun { a, .. } => vec![(0, a)],
        K::Lock { m } | K::TryLock { m } | K::Unlock { m } => vec![(1, m)],
        K::Read { l } | K::TryRead { l } | K::UnlockR { l } | K::Write { l } | K::TryWrite { l } | K::UnlockW { l } => vec![(2, l)],
        K::Wait { cv, m } => vec![(3, cv), (1, m)],
        K::NotifyOne { cv } | K::NotifyAll { cv } => vec![(3, cv)],
        K::NWait { n } | K::NNotify { n } => vec![(4, n)],
        K::Send { ch, .. } | K::Recv { ch } | K::TryRecv { ch } | K::DropRx { ch } | K::ForgetRx { ch } => vec![(5, ch)],
        K::CellRead { c } | K::CellWrite { c } => vec![(6, c)],
        _ => vec![],
    }
}

fn obj_refs_ro(k: &K) -> Vec<(u8, usize)> {
    let mut k = k.clone();
    obj_refs(&mut k).into_iter().map(|(a, b)| (a, *b)).collect()
}

/// Sort child threads and rename objects of every kind in first-use order (a few rounds).
pub fn canon_children(mut ch: Vec<Vec<Op>>, keep_kinds: &[u8]) -> Vec<Vec<Op>> {
    for _ in 0..3 {
        ch.sort();
        let mut maps: Vec<Vec<Option<usize>>> = vec![vec![None; 8]; 8];
        let mut next = [0usize; 8];
        for op in ch.iter_mut().flatten() {
            for (kind, idx) in obj_refs(&mut op.k) {
                if keep_kinds.contains(&kind) {
                    continue;
                }
                let m = &mut maps[kind as usize];
                if m[*idx].is_none() {
                    m[*idx] = Some(next[kind as usize]);
                    next[kind as usize] += 1;
                }
            }
        }
        for op in ch.iter_mut().flatten() {
            for (kind, idx) in obj_refs(&mut op.k) {
                if keep_kinds.contains(&kind) {
                    continue;
                }
                *idx = maps[kind as usize][*idx].unwrap();
            }
        }
    }
    ch.sort();
    ch
}

fn count_objs(threads: &mut [Vec<Op>]) -> [usize; 8] {
    let mut n = [0usize; 8];
    for op in threads.iter_mut().flatten() {
        for (kind, idx) in obj_refs(&mut op.k) {
            n[kind as usize] = n[kind as usize].max(*idx + 1);
        }
    }
    n
}

fn objs_from_counts(n: [usize; 8]) -> Objs {
    Objs { atomics: vec![0; n[0]], mutexes: n[1], rwlocks: n[2], condvars: n[3], notifies: n[4], chans: n[5], cells: n[6], ..Default::default() }
}

// ------------------------------------------------------------------------------------------
// LOCK
// ------------------------------------------------------------------------------------------

#[derive(Clone, Copy, PartialEq, Eq)]
enum HeldKind {
    Mutex,
    Read,
    Write,
}

#[derive(Clone, Copy)]
struct Held {
    kind: HeldKind,
    idx: usize,
    /// index of the try op that acquired it (ops inside are guarded by its success)
    try_at: Option<usize>,
}

/// All well-formed lock threads of at most `maxlen` ops over `nm` mutexes and `nl` rwlocks.
/// The data atomic a0 is only touched while holding a mutex / write lock (fetch_add) or a read
/// lock (load). `with_try`: include try_lock / try_read / try_write.
pub fn lock_threads(nm: usize, nl: usize, maxlen: usize, with_try: bool, with_data: bool) -> Vec<Vec<Op>> {
    fn rec(ops: &mut Vec<Op>, held: &mut Vec<Held>, left: usize, nm: usize, nl: usize, with_try: bool, with_data: bool, out: &mut Vec<Vec<Op>>) {
        if held.is_empty() && !ops.is_empty() {
            out.push(ops.clone());
        }
        if left == 0 {
            return;
        }
        // the guard every new op inherits: the innermost enclosing try section
        let guard = held.iter().rev().find_map(|h| h.try_at).map(|i| Guard { idx: i, res: Res::Ok(0) });
        let in_try = guard.is_some();
        let push = |ops: &mut Vec<Op>, k: K| ops.push(Op { g: guard, k });
        // releases (any held lock, any order => overlapping sections)
        for hi in 0..held.len() {
            let h = held[hi];
            // ops are guarded by the innermost try only, so a lock taken inside a try section
            // must be released inside it, and a try section may only be closed when it is innermost
            if let Some(inner_pos) = held.iter().rposition(|x| x.try_at.is_some()) {
                if hi < inner_pos {
                    continue;
                }
                // the try section itself closes last
                if hi == inner_pos && hi != held.len() - 1 {
                    continue;
                }
            }
            let k = match h.kind {
                HeldKind::Mutex => K::Unlock { m: h.idx },
                HeldKind::Read => K::UnlockR { l: h.idx },
                HeldKind::Write => K::UnlockW { l: h.idx },
            };
            let removed = held.remove(hi);
            // the unlock of a try section is guarded by the try itself
            let g = if removed.try_at.is_some() { removed.try_at.map(|i| Guard { idx: i, res: Res::Ok(0) }) } else { guard };
            ops.push(Op { g, k });
            rec(ops, held, left - 1, nm, nl, with_try, with_data, out);
            ops.pop();
            held.insert(hi, removed);
        }
        // data
        if with_data {
            let excl = held.iter().any(|h| h.kind != HeldKind::Read);
            let shared = held.iter().any(|h| h.kind == HeldKind::Read);
            if excl && left >= 2 {
                push(ops, K::FetchAdd { a: 0, v: 1, mo: MO::Rlx });
                rec(ops, held, left - 1, nm, nl, with_try, with_data, out);
                ops.pop();
            } else if shared && left >= 2 {
                push(ops, K::Load { a: 0, mo: MO::Rlx });
                rec(ops, held, left - 1, nm, nl, with_try, with_data, out);
                ops.pop();
            }
        }
        // acquires need room for the matching release
        if left >= 2 {
            for m in 0..nm {
                if held.iter().any(|h| h.kind == HeldKind::Mutex && h.idx == m) {
                    continue;
                }
                push(ops, K::Lock { m });
                held.push(Held { kind: HeldKind::Mutex, idx: m, try_at: None });
                rec(ops, held, left - 1, nm, nl, with_try, with_data, out);
                held.pop();
                ops.pop();
                if with_try && !in_try {
                    let at = ops.len();
                    push(ops, K::TryLock { m });
                    held.push(Held { kind: HeldKind::Mutex, idx: m, try_at: Some(at) });
                    rec(ops, held, left - 1, nm, nl, with_try, with_data, out);
                    held.pop();
                    ops.pop();
                }
            }
            for l in 0..nl {
                if held.iter().any(|h| h.kind != HeldKind::Mutex && h.idx == l) {
                    continue;
                }
                for (kind, blocking) in [(HeldKind::Read, true), (HeldKind::Write, true), (HeldKind::Read, false), (HeldKind::Write, false)] {
                    if !blocking && (!with_try || in_try) {
                        continue;
                    }
                    let at = ops.len();
                    let k = match (kind, blocking) {
                        (HeldKind::Read, true) => K::Read { l },
                        (HeldKind::Write, true) => K::Write { l },
                        (HeldKind::Read, false) => K::TryRead { l },
                        (HeldKind::Write, false) => K::TryWrite { l },
                        _ => unreachable!(),
                    };
                    push(ops, k);
                    held.push(Held { kind, idx: l, try_at: if blocking { None } else { Some(at) } });
                    rec(ops, held, left - 1, nm, nl, with_try, with_data, out);
                    held.pop();
                    ops.pop();
                }
            }
        }
    }
    let mut out = vec![];
    rec(&mut vec![], &mut vec![], maxlen, nm, nl, with_try, with_data, &mut out);
    out.sort();
    out.dedup();
    out
}

pub fn lock_family(nm: usize, nl: usize, nthreads: usize, maxlen: usize, max_total: usize, with_try: bool, with_data: bool) -> Vec<Program> {
    let pool = lock_threads(nm, nl, maxlen, with_try, with_data);
    let mut seen = HashSet::new();
    let mut out = vec![];
    for ch in thread_sets(&pool, nthreads, max_total) {
        // at least one lock object shared by two threads
        let mut ch = canon_children(ch, &[0]);
        let n = count_objs(&mut ch);
        let mut shared = false;
        for kind in [1u8, 2u8] {
            for idx in 0..n[kind as usize] {
                let users = ch.iter().filter(|t| t.iter().any(|op| obj_refs_ro(&op.k).iter().any(|(k2, i2)| *k2 == kind && *i2 == idx))).count();
                if users >= 2 {
                    shared = true;
                }
            }
        }
        if !shared {
            continue;
        }
        let mut objs = objs_from_counts(n);
        let tail = if with_data {
            objs.atomics = vec![0];
            vec![ld(0, MO::Rlx)]
        } else {
            vec![]
        };
        let p = with_main("LOCK", objs, vec![], ch, vec![], tail);
        if seen.insert(p.text()) {
            out.push(p);
        }
    }
    out
}

pub fn lock_sentinels() -> Vec<Program> {
    let o = |m: usize, l: usize, a: usize| Objs { mutexes: m, rwlocks: l, atomics: vec![0; a], ..Default::default() };
    let lk = |m| Op::from(K::Lock { m });
    let ul = |m| Op::from(K::Unlock { m });
    let d = || fadd(0, 1, MO::Rlx);
    vec![
        // S04 AB-BA deadlock
        with_main("S04", o(2, 0, 0), vec![], vec![vec![lk(0), lk(1), ul(1), ul(0)], vec![lk(1), lk(0), ul(0), ul(1)]], vec![], vec![]),
        // S04b the same deadlock while each thread owns a loom Arc in its frame (D7)
        with_main(
            "S04b",
            Objs { mutexes: 2, handles: 6, arcs: vec![None], ..Default::default() },
            vec![K::ArcNew { h: 0, arc: 0 }.into(), K::ArcClone { from: 0, to: 2 }.into(), K::ArcClone { from: 0, to: 4 }.into()],
            vec![
                vec![K::ArcHold { h: 2 }.into(), lk(0), lk(1), ul(1), ul(0), K::ArcDrop { h: 2 }.into()],
                vec![K::ArcHold { h: 4 }.into(), lk(1), lk(0), ul(0), ul(1), K::ArcDrop { h: 4 }.into()],
            ],
            vec![],
            vec![],
        ),
        // S05 three threads on one mutex, one uses try_lock
        with_main(
            "S05",
            o(1, 0, 1),
            vec![],
            vec![vec![lk(0), d(), ul(0)], vec![lk(0), d(), ul(0)], vec![K::TryLock { m: 0 }.into(), K::FetchAdd { a: 0, v: 1, mo: MO::Rlx }.when(0, Res::Ok(0)), K::Unlock { m: 0 }.when(0, Res::Ok(0))]],
            vec![],
            vec![ld(0, MO::Rlx)],
        ),
        // S06 rwlock: two readers, one writer, one try_write
        with_main(
            "S06",
            o(0, 1, 1),
            vec![],
            vec![
                vec![K::Read { l: 0 }.into(), ld(0, MO::Rlx), K::UnlockR { l: 0 }.into()],
                vec![K::Read { l: 0 }.into(), ld(0, MO::Rlx), K::UnlockR { l: 0 }.into()],
                vec![K::Write { l: 0 }.into(), d(), K::UnlockW { l: 0 }.into()],
            ],
            vec![K::TryWrite { l: 0 }.into(), K::FetchAdd { a: 0, v: 1, mo: MO::Rlx }.when(3, Res::Ok(0)), K::UnlockW { l: 0 }.when(3, Res::Ok(0))],
            vec![ld(0, MO::Rlx)],
        ),
        // S07 hand-over-hand x2
        with_main("S07", o(2, 0, 1), vec![], vec![vec![lk(0), d(), lk(1), ul(0), d(), ul(1)], vec![lk(0), d(), lk(1), ul(0), d(), ul(1)]], vec![], vec![ld(0, MO::Rlx)]),
    ]
}

// ------------------------------------------------------------------------------------------
// WAIT
// ------------------------------------------------------------------------------------------

/// Blocks a WAIT thread is made of. Objects: condvar 0 + mutex 0 + flag atomic 0, notify 0.
fn wait_blocks(nthreads_total: usize, me: usize, with_notify: bool, with_park: bool, with_cv: bool) -> Vec<Vec<Op>> {
    let mut b: Vec<Vec<Op>> = vec![];
    if with_cv {
        // waiter without a flag (a lost wake-up deadlocks)
        b.push(vec![K::Lock { m: 0 }.into(), K::Wait { cv: 0, m: 0 }.into(), K::Unlock { m: 0 }.into()]);
        // waiter that checks the flag first (wait only if the flag is still 0)
        b.push(vec![K::Lock { m: 0 }.into(), ld(0, MO::Rlx), K::Wait { cv: 0, m: 0 }.when(1, Res::V(0)), K::Unlock { m: 0 }.into()]);
        // notifiers: bare and under the mutex with the flag
        b.push(vec![K::NotifyOne { cv: 0 }.into()]);
        b.push(vec![K::NotifyAll { cv: 0 }.into()]);
        b.push(vec![K::Lock { m: 0 }.into(), st(0, 1, MO::Rlx), K::NotifyOne { cv: 0 }.into(), K::Unlock { m: 0 }.into()]);
        b.push(vec![K::Lock { m: 0 }.into(), st(0, 1, MO::Rlx), K::NotifyAll { cv: 0 }.into(), K::Unlock { m: 0 }.into()]);
    }
    if with_notify {
        b.push(vec![K::NWait { n: 0 }.into()]);
        b.push(vec![K::NNotify { n: 0 }.into()]);
    }
    if with_park {
        b.push(vec![K::Park.into()]);
        for t in 0..nthreads_total {
            // a child can only name main or an earlier-spawned sibling (its handle exists then)
            if t != me && (me == 0 || t < me) {
                b.push(vec![K::Unpark { t }.into()]);
            }
        }
    }
    b
}

/// Relocate guard indices when blocks are concatenated
fn concat_blocks(blocks: &[Vec<Op>]) -> Vec<Op> {
    let mut out: Vec<Op> = vec![];
    for b in blocks {
        let base = out.len();
        for op in b {
            let mut op = op.clone();
            if let Some(g) = op.g.as_mut() {
                g.idx += base;
            }
            out.push(op);
        }
    }
    out
}

/// WAIT family: `nchildren` child threads of 1..=maxblocks blocks each, main runs up to
/// `main_blocks` blocks between spawn and join.
pub fn wait_family(nchildren: usize, maxblocks: usize, main_blocks: usize, max_total_ops: usize, with_notify: bool, with_park: bool, with_cv: bool) -> Vec<Program> {
    let total = nchildren + 1;
    // per-thread pools (unpark targets depend on the thread index)
    let mut pools: Vec<Vec<Vec<Op>>> = vec![];
    for me in 0..total {
        let blocks = wait_blocks(total, me, with_notify, with_park, with_cv);
        let mut pool: Vec<Vec<Op>> = vec![];
        let maxb = if me == 0 { main_blocks } else { maxblocks };
        let mut cur: Vec<Vec<Vec<Op>>> = vec![vec![]];
        if me == 0 {
            pool.push(vec![]);
        }
        for _ in 0..maxb {
            let mut nxt = vec![];
            for s in &cur {
                for bl in &blocks {
                    let mut s2 = s.clone();
                    s2.push(bl.clone());
                    nxt.push(s2);
                }
            }
            for s in &nxt {
                pool.push(concat_blocks(s));
            }
            cur = nxt;
        }
        pools.push(pool);
    }
    let mut out = vec![];
    let mut seen = HashSet::new();
    // cartesian product over children (no symmetry reduction across children because unpark
    // targets name thread indices); dedupe by text
    fn rec(pools: &[Vec<Vec<Op>>], t: usize, cur: &mut Vec<Vec<Op>>, left: usize, out: &mut Vec<Vec<Vec<Op>>>) {
        if t == pools.len() {
            out.push(cur.clone());
            return;
        }
        for th in &pools[t] {
            if th.len() > left {
                continue;
            }
            cur.push(th.clone());
            rec(pools, t + 1, cur, left - th.len(), out);
            cur.pop();
        }
    }
    let mut combos = vec![];
    rec(&pools, 0, &mut vec![], max_total_ops, &mut combos);
    for c in combos {
        let main_mid = c[0].clone();
        let children: Vec<Vec<Op>> = c[1..].to_vec();
        // well-formedness: at most one thread waits on the Notify object (loom asserts this)
        let nwaiters = c.iter().filter(|t| t.iter().any(|op| matches!(op.k, K::NWait { .. }))).count();
        if nwaiters > 1 {
            continue;
        }
        // something must be able to interact: skip programs where no thread waits at all
        let waits = c.iter().flatten().any(|op| matches!(op.k, K::Wait { .. } | K::NWait { .. } | K::Park));
        if !waits {
            continue;
        }
        let mut all = c.clone();
        let n = count_objs(&mut all);
        let mut objs = objs_from_counts(n);
        // main's guard indices shift by the number of spawns
        let shift = children.len();
        let main_mid: Vec<Op> = main_mid
            .into_iter()
            .map(|mut op| {
                if let Some(g) = op.g.as_mut() {
                    g.idx += shift;
                }
                op
            })
            .collect();
        let uses_flag = n[0] > 0;
        if uses_flag {
            objs.atomics = vec![0];
        }
        let p = with_main("WAIT", objs, vec![], children, main_mid, vec![]);
        if seen.insert(p.text()) {
            out.push(p);
        }
    }
    out
}

// ------------------------------------------------------------------------------------------
// CHAN
// ------------------------------------------------------------------------------------------

/// CHAN family: `nsenders` sender threads with 1..=max_sends sends each, the receiver (a child
/// thread) runs every sequence of recv / try_recv of length 0..=max_recv, optionally followed by
/// dropping the receiver.
pub fn chan_family(nsenders: usize, max_sends: usize, max_recv: usize, with_drop: bool) -> Vec<Program> {
    let mut out = vec![];
    let mut seen = HashSet::new();
    // sender threads: non-decreasing number of sends (symmetry)
    fn send_counts(n: usize, max: usize, start: usize, cur: &mut Vec<usize>, out: &mut Vec<Vec<usize>>) {
        if cur.len() == n {
            out.push(cur.clone());
            return;
        }
        for k in start..=max {
            cur.push(k);
            send_counts(n, max, k, cur, out);
            cur.pop();
        }
    }
    let mut sc = vec![];
    send_counts(nsenders, max_sends, 1, &mut vec![], &mut sc);
    let ralpha: Vec<Op> = vec![K::Recv { ch: 0 }.into(), K::TryRecv { ch: 0 }.into()];
    let mut rseqs = vec![vec![]];
    rseqs.extend(seqs(&ralpha, max_recv));
    for counts in &sc {
        let mut v = 0u64;
        let senders: Vec<Vec<Op>> = counts
            .iter()
            .map(|&k| {
                (0..k)
                    .map(|_| {
                        v += 1;
                        Op::from(K::Send { ch: 0, v })
                    })
                    .collect()
            })
            .collect();
        for rs in &rseqs {
            for drop in [false, true] {
                if drop && !with_drop {
                    continue;
                }
                let mut r = rs.clone();
                if drop {
                    r.push(K::DropRx { ch: 0 }.into());
                }
                if r.is_empty() {
                    continue;
                }
                let mut ch = senders.clone();
                ch.push(r);
                let p = with_main("CHAN", Objs { chans: 1, ..Default::default() }, vec![], ch, vec![], vec![]);
                if seen.insert(p.text()) {
                    out.push(p);
                }
            }
        }
    }
    out
}

// ------------------------------------------------------------------------------------------
// RACE: cell accesses inserted into synchronisation idioms
// ------------------------------------------------------------------------------------------

/// Insert `op` at position `pos` of thread `t`, fixing up guard indices.
pub fn insert_op(p: &Program, t: usize, pos: usize, op: Op) -> Program {
    let mut q = p.clone();
    for o in q.threads[t].iter_mut() {
        if let Some(g) = o.g.as_mut() {
            if g.idx >= pos {
                g.idx += 1;
            }
        }
    }
    q.threads[t].insert(pos, op);
    q
}

/// All ways to add two conflicting accesses to a new cell in two different threads.
/// `guards`: additionally guard an inserted access by "the load just before it returned v".
pub fn with_cell_pair(p: &Program, guards: bool, include_main: bool) -> Vec<Program> {
    let mut out = vec![];
    let c = p.objs.cells;
    let first = if include_main { 0 } else { 1 };
    let n = p.threads.len();
    // values stored per atomic (for guards)
    let mut vals: Vec<Vec<u64>> = vec![vec![]; p.objs.atomics.len()];
    for op in p.threads.iter().flatten() {
        match op.k {
            K::Store { a, v, .. } | K::Swap { a, v, .. } => vals[a].push(v),
            K::Cas { a, new, .. } => vals[a].push(new),
            K::FetchAdd { a, v, .. } if v != 0 => vals[a].push(v),
            _ => {}
        }
    }
    // values sent per channel (for guards on the result of a receive)
    let mut sent: Vec<Vec<u64>> = vec![vec![]; p.objs.chans];
    for op in p.threads.iter().flatten() {
        if let K::Send { ch, v } = op.k {
            sent[ch].push(v);
        }
    }
    let variants = |q: &Program, t: usize, pos: usize, k: K| -> Vec<Op> {
        let mut v = vec![Op::from(k.clone())];
        if pos > 0 && q.threads[t][pos - 1].g.is_none() {
            match q.threads[t][pos - 1].k {
                K::Load { a, .. } if guards => {
                    for &x in &vals[a] {
                        v.push(k.clone().when(pos - 1, Res::V(x)));
                    }
                }
                // "only if the message just received is this one": the access then depends on
                // the edge from exactly that sender
                K::Recv { ch } | K::TryRecv { ch } => {
                    for &x in &sent[ch] {
                        v.push(k.clone().when(pos - 1, Res::Ok(x)));
                    }
                }
                // "only if the try-acquire succeeded": the access is then inside the section
                K::TryLock { .. } | K::TryRead { .. } | K::TryWrite { .. } => {
                    v.push(k.clone().when(pos - 1, Res::Ok(0)));
                }
                _ => {}
            }
        }
        v
    };
    for ta in first..n {
        for tb in (ta + 1)..n {
            // main: only between the last spawn and the first join (concurrent part)
            let range = |t: usize| -> (usize, usize) {
                if t == 0 {
                    let s = p.threads[0].iter().rposition(|o| matches!(o.k, K::Spawn { .. })).map(|x| x + 1).unwrap_or(0);
                    let j = p.threads[0].iter().position(|o| matches!(o.k, K::Join { .. })).unwrap_or(p.threads[0].len());
                    (s, j)
                } else {
                    (0, p.threads[t].len())
                }
            };
            let (a0, a1) = range(ta);
            let (b0, b1) = range(tb);
            for pa in a0..=a1 {
                for pb in b0..=b1 {
                    for (ka, kb) in [(K::CellWrite { c }, K::CellRead { c }), (K::CellRead { c }, K::CellWrite { c }), (K::CellWrite { c }, K::CellWrite { c })] {
                        for oa in variants(p, ta, pa, ka.clone()) {
                            let q1 = insert_op(p, ta, pa, oa);
                            for ob in variants(&q1, tb, pb, kb.clone()) {
                                let mut q = insert_op(&q1, tb, pb, ob);
                                q.objs.cells = c + 1;
                                q.name = format!("{}+cell", p.name);
                                out.push(q);
                            }
                        }
                    }
                }
            }
        }
    }
    out
}

pub fn race_a(tier: &str) -> Vec<Program> {
    let mut out = vec![];
    let mut seen = HashSet::new();
    let base: Vec<Program> = if tier == "quick" { lit(1, 2, 2, 3, false, false) } else { lit(1, 2, 2, 4, true, false) };
    for b in &base {
        // drop main's final reads: only the verdict matters
        let mut b = b.clone();
        while matches!(b.threads[0].last().map(|o| &o.k), Some(K::Load { .. })) {
            b.threads[0].pop();
        }
        for q in with_cell_pair(&b, true, false) {
            if seen.insert(q.text()) {
                out.push(q);
            }
        }
    }
    out.extend(race_a_sentinels());
    out
}

pub fn race_a_sentinels() -> Vec<Program> {
    use crate::ir::MO::*;
    let mk = |name: &str, nat: usize, ch: Vec<Vec<Op>>| with_main(name, Objs { atomics: vec![0; nat], cells: 1, ..Default::default() }, vec![], ch, vec![], vec![]);
    let g = |k: K, idx: usize, v: u64| k.when(idx, Res::V(v));
    let mut out = vec![];
    // S29 guarded MP with every ordering pair, and the two-hop variant
    for &s in &MO::STORES {
        for &l in &MO::LOADS {
            out.push(mk("S29-mp", 1, vec![vec![wr(0), st(0, 1, s)], vec![ld(0, l), g(K::CellRead { c: 0 }, 0, 1)]]));
            out.push(mk("S29-2hop", 2, vec![vec![wr(0), st(0, 1, s)], vec![ld(0, l), g(K::Store { a: 1, v: 1, mo: s }, 0, 1)], vec![ld(1, l), g(K::CellRead { c: 0 }, 0, 1)]]));
        }
    }
    // fences on both sides
    for &f1 in &MO::FENCES {
        for &f2 in &MO::FENCES {
            out.push(mk("S29-mp-fences", 1, vec![vec![wr(0), fence(f1), st(0, 1, Rlx)], vec![ld(0, Rlx), fence(f2), g(K::CellRead { c: 0 }, 0, 1)]]));
        }
    }
    // release sequence through an RMW of a third thread
    for &u in &MO::RMWS {
        out.push(mk("S29-relseq", 1, vec![vec![wr(0), st(0, 1, Rel)], vec![fadd(0, 16, u)], vec![ld(0, Acq), g(K::CellRead { c: 0 }, 0, 17)]]));
    }
    // the flag is read by a compare_exchange: every (success, failure) ordering pair; the cell is
    // read if the CAS failed on the flag (exp 0) / succeeded on it (exp 1)
    for &s in &[Rlx, Rel] {
        for &sc in &MO::RMWS {
            for &fc in &MO::LOADS {
                out.push(mk("S29-mp-cas-fail", 1, vec![vec![wr(0), st(0, 1, s)], vec![cas(0, 0, 9, sc, fc), K::CellRead { c: 0 }.when(0, Res::Err(1))]]));
                out.push(mk("S29-mp-cas-ok", 1, vec![vec![wr(0), st(0, 1, s)], vec![cas(0, 1, 9, sc, fc), K::CellRead { c: 0 }.when(0, Res::Ok(1))]]));
                out.push(mk(
                    "S29-mp-cas-2hop",
                    2,
                    vec![vec![wr(0), st(0, 1, s)], vec![cas(0, 0, 9, sc, fc), K::Store { a: 1, v: 1, mo: Rel }.when(0, Res::Err(1))], vec![ld(1, Acq), g(K::CellRead { c: 0 }, 0, 1)]],
                ));
            }
        }
    }
    // S30 SeqCst fences are not happens-before
    out.push(mk("S30", 0, vec![vec![wr(0), fence(Sc)], vec![fence(Sc), rd(0)]]));
    // S31 with_mut / unsync_load against atomic accesses
    for k in [K::WithMut { a: 0 }, K::UnsyncLoad { a: 0 }] {
        for other in [ld(0, Acq), st(0, 1, Rel), fadd(0, 1, AcqRel)] {
            let p = with_main("S31", atomics(1), vec![], vec![vec![k.clone().into()], vec![other.clone()]], vec![], vec![]);
            out.push(p);
            // ordered variant: the non-atomic access is in main after the join
            let p = with_main("S31-ordered", atomics(1), vec![], vec![vec![other]], vec![], vec![k.clone().into()]);
            out.push(p);
        }
    }
    // S32: the non-atomic access of an atomic is ordered after the *newest* store but not after an
    // older one from another thread. A stores, then (only a relaxed flag in between) B stores or
    // RMWs and publishes with release; C acquires and accesses the atomic non-atomically: a race
    // with A's store - unless the A -> B flag is release/acquire as well (control).
    for k in [K::WithMut { a: 0 }, K::UnsyncLoad { a: 0 }] {
        for second in [st(0, 2, Rlx), fadd(0, 16, Rlx), swap(0, 2, Rlx)] {
            for (fs, fl) in [(Rlx, Rlx), (Rel, Acq)] {
                let a = vec![st(0, 1, Rlx), st(1, 1, fs)];
                let b = vec![K::Await { a: 1, mo: fl, want: 1 }.into(), second.clone(), st(2, 1, Rel)];
                let c: Vec<Op> = vec![K::Await { a: 2, mo: Acq, want: 1 }.into(), k.clone().into()];
                out.push(with_main("S32-older-store", atomics(3), vec![], vec![a.clone(), b.clone(), c.clone()], vec![], vec![]));
                // main as the first storer (after the spawns)
                out.push(with_main("S32-older-store-main", atomics(3), vec![], vec![b, c], a, vec![]));
            }
        }
    }
    // S33: the spawn edge covers what the parent did BEFORE the spawn, nothing after it. The
    // parent's first access after the spawn (of the kinds that do not advance its clock by
    // themselves: unsync_load, with_mut, a cell access) against an access of the child - or of a
    // third thread one message away from the child - that only runs once a relaxed flag shows
    // that the parent's access is over.
    {
        let objs = |cells: usize| Objs { atomics: vec![0, 0], cells, chans: 1, ..Default::default() };
        // (parent's access, conflicting access, needs a cell)
        let pairs: Vec<(Op, Op, usize)> = vec![
            (K::UnsyncLoad { a: 0 }.into(), st(0, 1, Rlx), 0),
            (K::UnsyncLoad { a: 0 }.into(), fadd(0, 1, Rlx), 0),
            (K::WithMut { a: 0 }.into(), ld(0, Rlx), 0),
            (rd(0), wr(0), 1),
            (wr(0), rd(0), 1),
            (wr(0), wr(0), 1),
        ];
        for (pa, ca, cells) in pairs {
            // child: reads the flag, performs the conflicting access if it is up
            let mut guarded = ca.clone();
            guarded.g = Some(Guard { idx: 0, res: Res::V(1) });
            let child = vec![ld(1, Rlx), guarded.clone()];
            out.push(with_main("S33-after-spawn", objs(cells), vec![], vec![child], vec![pa.clone(), st(1, 1, Rlx)], vec![]));
            // control: the parent's access BEFORE the spawn is ordered
            let mut unguarded = ca.clone();
            unguarded.g = None;
            out.push(with_main("S33-before-spawn", objs(cells), vec![pa.clone()], vec![vec![unguarded]], vec![], vec![]));
            // third thread: the child forwards through a channel (cell pairs only: programs with
            // channels are decided by the SC machine, which does not track non-atomic accesses
            // of atomics)
            if cells == 0 {
                continue;
            }
            let t1 = vec![ld(1, Rlx), K::Send { ch: 0, v: 1 }.when(0, Res::V(1))];
            let mut g2 = ca.clone();
            g2.g = Some(Guard { idx: 0, res: Res::Ok(1) });
            let t2 = vec![K::TryRecv { ch: 0 }.into(), g2];
            out.push(with_main("S33-after-spawn-3", objs(cells), vec![], vec![t1, t2], vec![pa.clone(), st(1, 1, Rlx)], vec![]));
        }
    }
    out
}

/// RACE-s: two cell accesses inserted into small programs over locks, channels, notify,
/// condvars and park/unpark.
pub fn race_s(tier: &str) -> Vec<Program> {
    let mut out = race_s_lock(tier);
    out.extend(race_s_wait(tier));
    out.extend(race_s_chan(tier));
    out
}

// ------------------------------------------------------------------------------------------
// ARC / LEAK
// ------------------------------------------------------------------------------------------

/// Op sequences of one thread that owns handle slot `h` (live at thread start) and a scratch
/// slot `e` (empty at thread start).
pub fn arc_threads(h: usize, e: usize, maxlen: usize, with_raw: bool, with_forget: bool) -> Vec<Vec<Op>> {
    // slot states: live / empty
    fn rec(ops: &mut Vec<Op>, hl: bool, el: bool, h: usize, e: usize, left: usize, with_raw: bool, with_forget: bool, out: &mut Vec<Vec<Op>>) {
        if !ops.is_empty() {
            out.push(ops.clone());
        }
        if left == 0 {
            return;
        }
        let mut try_op = |ops: &mut Vec<Op>, k: K, hl2: bool, el2: bool, out: &mut Vec<Vec<Op>>| {
            ops.push(k.into());
            rec(ops, hl2, el2, h, e, left - 1, with_raw, with_forget, out);
            ops.pop();
        };
        for (slot, live, is_h) in [(h, hl, true), (e, el, false)] {
            if !live {
                continue;
            }
            let after = |l: bool| if is_h { (l, el) } else { (hl, l) };
            let (a, b) = after(true);
            try_op(ops, K::ArcCount { h: slot }, a, b, out);
            try_op(ops, K::ArcGetMut { h: slot }, a, b, out);
            if with_raw {
                try_op(ops, K::ArcRawRoundTrip { h: slot }, a, b, out);
            }
            let (a, b) = after(false);
            try_op(ops, K::ArcDrop { h: slot }, a, b, out);
            if with_raw {
                try_op(ops, K::ArcDecStrong { h: slot }, a, b, out);
            }
            if with_forget {
                try_op(ops, K::ArcForget { h: slot }, a, b, out);
            }
            // try_unwrap as the last op on the slot, followed by a drop guarded on failure
            if left >= 2 {
                let at = ops.len();
                ops.push(K::ArcTryUnwrap { h: slot }.into());
                ops.push(K::ArcDrop { h: slot }.when(at, Res::Err(0)));
                let (a, b) = after(false);
                rec(ops, a, b, h, e, left - 2, with_raw, with_forget, out);
                ops.pop();
                ops.pop();
            }
        }
        if hl && !el {
            try_op(ops, K::ArcClone { from: h, to: e }, hl, true, out);
            if with_raw {
                try_op(ops, K::ArcIncStrong { h, to: e }, hl, true, out);
            }
        }
        if hl && el {
            try_op(ops, K::ArcPtrEq { h, h2: e }, hl, el, out);
        }
    }
    let mut out = vec![];
    rec(&mut vec![], true, false, h, e, maxlen, with_raw, with_forget, &mut out);
    out
}

/// ARC family: main creates one arc, hands a clone to each of `nchildren` children; every
/// thread (main included, between spawn and join) runs a sequence over its own handle.
pub fn arc_family(nchildren: usize, maxlen: usize, main_len: usize, max_total: usize, with_raw: bool, with_forget: bool, cell: bool) -> Vec<Program> {
    let mut out = vec![];
    let mut seen = HashSet::new();
    let nslots = 2 * (nchildren + 1);
    let mut pre: Vec<Op> = vec![K::ArcNew { h: 0, arc: 0 }.into()];
    for t in 1..=nchildren {
        pre.push(K::ArcClone { from: 0, to: 2 * t }.into());
    }
    let pools: Vec<Vec<Vec<Op>>> = (0..=nchildren)
        .map(|t| {
            let mut p = arc_threads(2 * t, 2 * t + 1, if t == 0 { main_len } else { maxlen }, with_raw, with_forget);
            if t == 0 {
                p.push(vec![]);
            }
            p
        })
        .collect();
    fn rec(pools: &[Vec<Vec<Op>>], t: usize, cur: &mut Vec<Vec<Op>>, left: usize, out: &mut Vec<Vec<Vec<Op>>>) {
        if t == pools.len() {
            out.push(cur.clone());
            return;
        }
        for th in &pools[t] {
            if th.len() > left {
                continue;
            }
            cur.push(th.clone());
            rec(pools, t + 1, cur, left - th.len(), out);
            cur.pop();
        }
    }
    let mut combos = vec![];
    rec(&pools, 0, &mut vec![], max_total, &mut combos);
    for c in combos {
        // children are symmetric up to slot names: keep only non-decreasing shapes
        let shapes: Vec<String> = c[1..].iter().map(|t| t.iter().map(|o| format!("{:?}", std::mem::discriminant(&o.k))).collect::<Vec<_>>().join(",")).collect();
        if shapes.windows(2).any(|w| w[0] > w[1]) {
            continue;
        }
        let shift = pre.len() + nchildren;
        let main_mid: Vec<Op> = c[0]
            .iter()
            .cloned()
            .map(|mut op| {
                if let Some(g) = op.g.as_mut() {
                    g.idx += shift;
                }
                op
            })
            .collect();
        let mut children: Vec<Vec<Op>> = c[1..].to_vec();
        let mut objs = Objs { handles: nslots, arcs: vec![None], ..Default::default() };
        if cell {
            // every owner reads the cell before each of its drops; the payload's Drop writes it
            objs.cells = 1;
            objs.arcs = vec![Some(0)];
            for ch in children.iter_mut() {
                let mut i = 0;
                while i < ch.len() {
                    if matches!(ch[i].k, K::ArcDrop { .. } | K::ArcDecStrong { .. } | K::ArcTryUnwrap { .. }) && ch[i].g.is_none() {
                        let q = Program { name: String::new(), objs: Objs::default(), threads: vec![ch.clone()] };
                        *ch = insert_op(&q, 0, i, rd(0)).threads.remove(0);
                        i += 1;
                    }
                    i += 1;
                }
            }
        }
        let p = with_main(if cell { "ARC+cell" } else { "ARC" }, objs, pre.clone(), children, main_mid, vec![]);
        if seen.insert(p.text()) {
            out.push(p);
        }
    }
    out
}

/// LEAK family: tracked values, raw allocations, arcs and channel messages that are released or
/// not depending on the result of a CAS race.
/// ARC with a cell and no handle kept by main: main creates the arc, hands one clone to each of
/// `n` children and drops its own handle before spawning them. Every child reads the cell and
/// then drops its handle (optionally after inspecting); the payload's Drop writes the cell, so
/// every earlier drop must happen-before the final one, whichever child performs it.
pub fn arc_cell_children_only(n: usize) -> Vec<Program> {
    let mut out = vec![];
    let mut pre: Vec<Op> = vec![K::ArcNew { h: 0, arc: 0 }.into()];
    for t in 1..=n {
        pre.push(K::ArcClone { from: 0, to: 2 * t }.into());
    }
    pre.push(K::ArcDrop { h: 0 }.into());
    let variants: Vec<Vec<K>> = vec![vec![], vec![K::ArcCount { h: 0 }], vec![K::ArcGetMut { h: 0 }]];
    // every assignment of a variant to each child (unordered)
    fn rec(n: usize, nv: usize, start: usize, cur: &mut Vec<usize>, out: &mut Vec<Vec<usize>>) {
        if cur.len() == n {
            out.push(cur.clone());
            return;
        }
        for v in start..nv {
            cur.push(v);
            rec(n, nv, v, cur, out);
            cur.pop();
        }
    }
    let mut assigns = vec![];
    rec(n, variants.len(), 0, &mut vec![], &mut assigns);
    for a in assigns {
        for last_unwraps in [false, true] {
            let mut children: Vec<Vec<Op>> = vec![];
            for (i, &v) in a.iter().enumerate() {
                let h = 2 * (i + 1);
                let mut th: Vec<Op> = vec![rd(0)];
                for k in &variants[v] {
                    let mut k = k.clone();
                    match &mut k {
                        K::ArcCount { h: x } | K::ArcGetMut { h: x } => *x = h,
                        _ => {}
                    }
                    th.push(k.into());
                }
                if last_unwraps && i + 1 == n {
                    let at = th.len();
                    th.push(K::ArcTryUnwrap { h }.into());
                    th.push(K::ArcDrop { h }.when(at, Res::Err(0)));
                } else {
                    th.push(K::ArcDrop { h }.into());
                }
                children.push(th);
            }
            let objs = Objs { handles: 2 * (n + 1), arcs: vec![Some(0)], cells: 1, ..Default::default() };
            out.push(with_main("ARC+cell-children", objs, pre.clone(), children, vec![], vec![]));
        }
    }
    out
}

pub fn leak_family() -> Vec<Program> {
    use crate::ir::MO::*;
    let mut out = vec![];
    // every "resource" as (acquire ops in main before spawn, release op, leak op)
    #[derive(Clone)]
    struct R {
        name: &'static str,
        pre: Vec<Op>,
        release: Option<K>,
        leak: Option<K>,
    }
    let res = vec![
        R { name: "arc", pre: vec![K::ArcNew { h: 0, arc: 0 }.into()], release: Some(K::ArcDrop { h: 0 }), leak: Some(K::ArcForget { h: 0 }) },
        R { name: "track", pre: vec![K::TrackNew { k: 0 }.into()], release: Some(K::TrackDrop { k: 0 }), leak: Some(K::TrackForget { k: 0 }) },
        R { name: "alloc", pre: vec![K::Alloc { k: 0 }.into()], release: Some(K::Dealloc { k: 0 }), leak: None },
        R { name: "msg", pre: vec![K::Send { ch: 0, v: 1 }.into()], release: Some(K::Recv { ch: 0 }), leak: Some(K::ForgetRx { ch: 0 }) },
    ];
    let objs = |_r: &R| Objs { atomics: vec![0], handles: 1, arcs: vec![None], tracks: 1, allocs: 1, chans: 1, ..Default::default() };
    for r in &res {
        // (1) always released by a child; (2) never released; (3) explicitly leaked;
        // (4) released only by the CAS winner's sibling: T1 and T2 race on a CAS, T1 releases iff it
        //     won, T2 never does => leak in the schedules T2 wins; (5) both release-if-won => clean
        if let Some(rel) = &r.release {
            out.push(with_main(&format!("LEAK-{}-released", r.name), objs(r), r.pre.clone(), vec![vec![rel.clone().into()]], vec![], vec![]));
            out.push(with_main(&format!("LEAK-{}-not-released", r.name), objs(r), r.pre.clone(), vec![vec![ld(0, Rlx)]], vec![], vec![]));
            out.push(with_main(
                &format!("LEAK-{}-winner-releases", r.name),
                objs(r),
                r.pre.clone(),
                vec![vec![cas(0, 0, 1, AcqRel, Acq), rel.clone().when(0, Res::Ok(0))], vec![cas(0, 0, 2, AcqRel, Acq)]],
                vec![],
                vec![],
            ));
            out.push(with_main(
                &format!("LEAK-{}-either-releases", r.name),
                objs(r),
                r.pre.clone(),
                vec![vec![cas(0, 0, 1, AcqRel, Acq), rel.clone().when(0, Res::Ok(0))], vec![cas(0, 0, 2, AcqRel, Acq), rel.clone().when(0, Res::Ok(0))]],
                vec![],
                vec![],
            ));
        }
        if let Some(lk) = &r.leak {
            out.push(with_main(&format!("LEAK-{}-leaked", r.name), objs(r), r.pre.clone(), vec![vec![lk.clone().into()]], vec![], vec![]));
            if let Some(rel) = &r.release {
                // leaked by the CAS winner, released by the loser
                out.push(with_main(
                    &format!("LEAK-{}-winner-leaks", r.name),
                    objs(r),
                    r.pre.clone(),
                    vec![vec![cas(0, 0, 1, AcqRel, Acq), lk.clone().when(0, Res::Ok(0)), rel.clone().when(0, Res::Err(2))], vec![cas(0, 0, 2, AcqRel, Acq)]],
                    vec![],
                    vec![],
                ));
            }
        }
    }
    // send after the receiver was dropped: nothing leaks (D10)
    out.push(with_main("LEAK-send-after-drop", Objs { chans: 1, ..Default::default() }, vec![], vec![vec![K::Send { ch: 0, v: 1 }.into()], vec![K::DropRx { ch: 0 }.into()]], vec![], vec![]));
    out.push(with_main("LEAK-send-send-drop", Objs { chans: 1, ..Default::default() }, vec![], vec![vec![K::Send { ch: 0, v: 1 }.into()], vec![K::Send { ch: 0, v: 2 }.into()], vec![K::DropRx { ch: 0 }.into()]], vec![], vec![]));
    out
}


// ------------------------------------------------------------------------------------------
// crash points (C06)
// ------------------------------------------------------------------------------------------

/// Every way to insert one `PanicHere` into `p`: every thread, every position; unconditional and,
/// right after an op with a schedule-dependent result, conditional on each value in `values`.
pub fn with_crash_points(p: &Program, values: &[Res]) -> Vec<Program> {
    let mut out = vec![];
    for t in 0..p.threads.len() {
        for pos in 0..=p.threads[t].len() {
            let tag = (100 * t + pos) as u64;
            // unguarded ops only (a guarded section keeps its own guard)
            let mut q = insert_op(p, t, pos, K::PanicHere { tag }.into());
            q.name = format!("{}+panic", p.name);
            out.push(q);
            if pos > 0 && p.threads[t][pos - 1].g.is_none() {
                let prev = &p.threads[t][pos - 1].k;
                let observable = matches!(prev, K::Load { .. } | K::Swap { .. } | K::FetchAdd { .. } | K::Cas { .. } | K::TryLock { .. } | K::TryRead { .. } | K::TryWrite { .. } | K::TryRecv { .. } | K::Recv { .. } | K::ArcCount { .. } | K::ArcGetMut { .. } | K::ArcDrop { .. });
                if observable {
                    for v in values {
                        let mut q = insert_op(p, t, pos, K::PanicHere { tag }.when(pos - 1, *v));
                        q.name = format!("{}+panic-if", p.name);
                        out.push(q);
                    }
                }
            }
        }
    }
    out
}

// ------------------------------------------------------------------------------------------
// additions made after seeded-change experiments (DESIGN.md section 10)
// ------------------------------------------------------------------------------------------

/// A-sc with a participating main thread: main joins its children one at a time and runs one
/// RMW between consecutive joins, so a thread blocked in `join` later races with accesses that
/// happened while it was blocked (4 threads with different roles).
pub fn a_sc_stagger(nat: usize, nchildren: usize, maxlen: usize, max_total: usize) -> Vec<Program> {
    a_sc_stagger_slots(nat, nchildren, maxlen, max_total, usize::MAX)
}

/// `max_slot`: the main op is only placed after the first `max_slot + 1` joins
pub fn a_sc_stagger_slots(nat: usize, nchildren: usize, maxlen: usize, max_total: usize, max_slot: usize) -> Vec<Program> {
    let mut alpha: Vec<Op> = vec![];
    for a in 0..nat {
        alpha.push(fadd(a, 0, Sc));
        alpha.push(swap(a, 0, Sc));
    }
    let pool = seqs(&alpha, maxlen);
    let mut seen = HashSet::new();
    let mut out = vec![];
    // children are NOT symmetric here (join order distinguishes them): ordered tuples
    fn tuples(pool: &[Vec<Op>], k: usize, left: usize, cur: &mut Vec<Vec<Op>>, out: &mut Vec<Vec<Vec<Op>>>) {
        if cur.len() == k {
            out.push(cur.clone());
            return;
        }
        for t in pool {
            if t.len() > left {
                continue;
            }
            cur.push(t.clone());
            tuples(pool, k, left - t.len(), cur, out);
            cur.pop();
        }
    }
    let mut sets = vec![];
    tuples(&pool, nchildren, max_total, &mut vec![], &mut sets);
    let mut main_opts: Vec<Option<Op>> = vec![None];
    for a in 0..nat {
        main_opts.push(Some(fadd(a, 0, Sc)));
    }
    for ch in sets {
        if !interesting(&ch, used_atomics(&ch)) || used_atomics(&ch) != nat {
            continue;
        }
        // which main op goes after which join (at most one main op in total, to bound the size)
        for (slot, mo, order) in stagger_choices(nchildren, &main_opts) {
            if slot > max_slot {
                continue;
            }
            {
                let mut main: Vec<Op> = (1..=nchildren).map(|t| Op::from(K::Spawn { t })).collect();
                for (k, &t) in order.iter().enumerate() {
                    main.push(K::Join { t }.into());
                    if k == slot {
                        if let Some(op) = &mo {
                            main.push(op.clone());
                        }
                    }
                }
                for a in 0..nat {
                    main.push(ld(a, Sc));
                }
                let mut threads = vec![main];
                threads.extend(ch.clone());
                // number the written values
                let mut v = 0u64;
                for op in threads.iter_mut().flatten() {
                    if let K::Swap { v: x, .. } = &mut op.k {
                        v += 1;
                        *x = v;
                    }
                }
                let p = Program { name: "A-sc-stagger".into(), objs: atomics(nat), threads };
                if seen.insert(p.text()) {
                    out.push(p);
                }
            }
        }
    }
    out
}

/// (slot of the main op, the main op, join order) choices: every join order (the thread that
/// unblocks main may have a higher index than a runnable bystander), the main op after any join.
fn stagger_choices(n: usize, main_opts: &[Option<Op>]) -> Vec<(usize, Option<Op>, Vec<usize>)> {
    fn perms(items: &[usize]) -> Vec<Vec<usize>> {
        if items.len() <= 1 {
            return vec![items.to_vec()];
        }
        let mut out = vec![];
        for i in 0..items.len() {
            let mut rest = items.to_vec();
            let x = rest.remove(i);
            for mut p in perms(&rest) {
                p.insert(0, x);
                out.push(p);
            }
        }
        out
    }
    let ids: Vec<usize> = (1..=n).collect();
    let mut out = vec![];
    for order in perms(&ids) {
        for slot in 0..n {
            for mo in main_opts {
                if mo.is_none() && slot > 0 {
                    continue;
                }
                out.push((slot, mo.clone(), order.clone()));
            }
        }
    }
    out
}

/// Three-thread idioms whose synchronisation comes from two notifiers (both must be acquired by
/// the waiter); relaxed flags tell the waiter that both notifications were issued.
pub fn two_notifier_bases() -> Vec<Program> {
    let flags = |k: K, f: usize| vec![Op::from(k), st(f, 1, Rlx)];
    let mut out = vec![];
    // park / unpark
    out.push(with_main(
        "IDIOM-2unpark",
        Objs { atomics: vec![0, 0], ..Default::default() },
        vec![],
        vec![flags(K::Unpark { t: 0 }, 0), flags(K::Unpark { t: 0 }, 1)],
        vec![K::Await { a: 0, mo: Rlx, want: 1 }.into(), K::Await { a: 1, mo: Rlx, want: 1 }.into(), K::Park.into()],
        vec![],
    ));
    // one unparker only (control)
    out.push(with_main("IDIOM-1unpark", Objs { atomics: vec![0], ..Default::default() }, vec![], vec![flags(K::Unpark { t: 0 }, 0)], vec![K::Await { a: 0, mo: Rlx, want: 1 }.into(), K::Park.into()], vec![]));
    // Notify
    out.push(with_main(
        "IDIOM-2notify",
        Objs { atomics: vec![0, 0], notifies: 1, ..Default::default() },
        vec![],
        vec![flags(K::NNotify { n: 0 }, 0), flags(K::NNotify { n: 0 }, 1)],
        vec![K::Await { a: 0, mo: Rlx, want: 1 }.into(), K::Await { a: 1, mo: Rlx, want: 1 }.into(), K::NWait { n: 0 }.into()],
        vec![],
    ));
    // two senders, the receiver takes both messages
    out.push(with_main(
        "IDIOM-2send",
        Objs { chans: 1, ..Default::default() },
        vec![],
        vec![vec![K::Send { ch: 0, v: 1 }.into()], vec![K::Send { ch: 0, v: 2 }.into()]],
        vec![K::Recv { ch: 0 }.into(), K::Recv { ch: 0 }.into()],
        vec![],
    ));
    // mutex hand-over chain and condvar with flag
    out.push(with_main(
        "IDIOM-cv",
        Objs { atomics: vec![0], mutexes: 1, condvars: 1, ..Default::default() },
        vec![],
        vec![vec![K::Lock { m: 0 }.into(), st(0, 1, Rlx), K::NotifyOne { cv: 0 }.into(), K::Unlock { m: 0 }.into()]],
        vec![K::Lock { m: 0 }.into(), ld(0, Rlx), K::Wait { cv: 0, m: 0 }.when(3, Res::V(0)), K::Unlock { m: 0 }.into()],
        vec![],
    ));
    out
}

pub fn race_s_lock(tier: &str) -> Vec<Program> {
    let mut base: Vec<Program> = vec![];
    base.extend(lock_family(1, 0, 2, 2, 4, false, false));
    base.extend(lock_family(0, 1, 2, 2, 4, false, false));
    base.extend(lock_family(0, 1, 3, 2, 6, false, false));
    // with try_lock / try_read / try_write sections (accesses guarded by the try's success)
    base.extend(lock_family(1, 0, 2, 2, 4, true, false));
    base.extend(lock_family(0, 1, 2, 2, 4, true, false));
    if tier != "quick" {
        base.extend(lock_family(1, 1, 2, 2, 4, true, false));
        base.extend(lock_family(1, 0, 3, 2, 6, false, false));
        base.extend(lock_family(0, 1, 3, 2, 6, true, false));
    }
    expand_cells(&base)
}

pub fn race_s_wait(tier: &str) -> Vec<Program> {
    let mut base: Vec<Program> = vec![];
    base.extend(wait_family(1, 1, 1, 6, true, true, false));
    base.extend(two_notifier_bases());
    if tier != "quick" {
        base.extend(wait_family(1, 1, 1, 8, true, true, true));
        base.extend(wait_family(2, 1, 0, 8, true, true, false));
    }
    let mut v = expand_cells(&base);
    v.extend(race_bare_notify_family());
    v
}

pub fn race_s_chan(tier: &str) -> Vec<Program> {
    let mut base: Vec<Program> = vec![];
    base.extend(chan_family(1, 1, 1, false));
    base.extend(chan_family(2, 1, 2, false));
    if tier != "quick" {
        base.extend(chan_family(1, 2, 2, false));
    }
    let mut v = expand_cells(&base);
    v.extend(race_guarded_family());
    v
}

fn expand_cells(base: &[Program]) -> Vec<Program> {
    let mut out = vec![];
    let mut seen = HashSet::new();
    for b in base {
        for q in with_cell_pair(b, false, true) {
            if seen.insert(q.text()) {
                out.push(q);
            }
        }
    }
    out
}

// ------------------------------------------------------------------------------------------
// STAT: thread-locals and lazy statics
// ------------------------------------------------------------------------------------------

pub fn stat_family(nchildren: usize, maxlen: usize, max_total: usize, tls_flavours: [bool; 2], lazy_flavours: [bool; 2], main_ops: bool) -> Vec<Program> {
    let mut alpha: Vec<Op> = vec![];
    for k in 0..2 {
        alpha.push(K::TlsWith { k }.into());
        alpha.push(K::LazyGet { k }.into());
    }
    alpha.push(K::TlsNested { k: 0, k2: 1 }.into());
    let pool = seqs(&alpha, maxlen);
    let mut out = vec![];
    let mut seen = HashSet::new();
    let mut mains: Vec<Vec<Op>> = vec![vec![]];
    if main_ops {
        mains.extend(seqs(&alpha, 1));
    }
    for ch in thread_sets(&pool, nchildren, max_total) {
        for mm in &mains {
            let objs = Objs { tls: tls_flavours.to_vec(), lazies: lazy_flavours.to_vec(), ..Default::default() };
            let p = with_main("STAT", objs, vec![], ch.clone(), mm.clone(), vec![]);
            if seen.insert(p.text()) {
                out.push(p);
            }
        }
    }
    out
}

/// STAT mixed with other primitives: a thread may touch a mutex / rwlock / Notify right before
/// or after it accesses a static (threads blocked on a static must not be woken by those).
pub fn stat_mix_family(nchildren: usize, maxblocks: usize, max_total: usize) -> Vec<Program> {
    let blocks: Vec<Vec<Op>> = vec![
        vec![K::LazyGet { k: 0 }.into()],
        vec![K::TlsWith { k: 0 }.into()],
        vec![K::Lock { m: 0 }.into(), K::Unlock { m: 0 }.into()],
        vec![K::Write { l: 0 }.into(), K::UnlockW { l: 0 }.into()],
        vec![K::NNotify { n: 0 }.into()],
    ];
    let mut pool: Vec<Vec<Op>> = vec![];
    let mut cur: Vec<Vec<Op>> = vec![vec![]];
    for _ in 0..maxblocks {
        let mut nxt = vec![];
        for s in &cur {
            for b in &blocks {
                let mut s2 = s.clone();
                s2.extend(b.iter().cloned());
                nxt.push(s2);
            }
        }
        pool.extend(nxt.iter().cloned());
        cur = nxt;
    }
    let mut out = vec![];
    let mut seen = HashSet::new();
    for ch in thread_sets(&pool, nchildren, max_total) {
        // at least two threads use the lazy static and somebody uses another primitive
        let lazy_users = ch.iter().filter(|t| t.iter().any(|o| matches!(o.k, K::LazyGet { .. }))).count();
        let other = ch.iter().flatten().any(|o| matches!(o.k, K::Lock { .. } | K::Write { .. } | K::NNotify { .. }));
        if lazy_users < 2 || !other {
            continue;
        }
        let objs = Objs { tls: vec![true, false], lazies: vec![true, false], mutexes: 1, rwlocks: 1, notifies: 1, ..Default::default() };
        let p = with_main("STAT+sync", objs, vec![], ch, vec![], vec![]);
        if seen.insert(p.text()) {
            out.push(p);
        }
    }
    out
}

pub fn stat_programs(tier: &str) -> Vec<Program> {
    let mut v = vec![];
    v.extend(stat_mix_family(3, 2, if tier == "quick" { 6 } else { 8 }));
    if tier == "quick" {
        v.extend(stat_family(1, 2, 2, [false, false], [false, false], true));
        v.extend(stat_family(2, 2, 3, [false, false], [false, false], false));
        v.extend(stat_family(2, 1, 2, [true, false], [true, false], true));
        v.extend(stat_family(2, 2, 3, [true, true], [false, true], false));
        v.extend(stat_family(3, 1, 3, [false, true], [true, true], false));
    } else {
        v.extend(stat_family(1, 3, 3, [false, false], [false, false], true));
        v.extend(stat_family(2, 2, 4, [false, false], [false, false], true));
        v.extend(stat_family(2, 2, 4, [true, false], [true, false], true));
        v.extend(stat_family(2, 2, 4, [true, true], [true, true], false));
        v.extend(stat_family(3, 1, 3, [true, true], [true, true], true));
        v.extend(stat_family(3, 2, 4, [false, true], [false, true], false));
        v.extend(stat_family(3, 2, 5, [true, true], [true, true], true));
        v.extend(stat_family(2, 3, 5, [true, false], [false, true], true));
    }
    v
}

// ------------------------------------------------------------------------------------------
// SPIN: one thread busy-waits (with yield) on a value another thread stores
// ------------------------------------------------------------------------------------------

pub fn spin_family(nat: usize, nwriters: usize, maxlen: usize, full: bool) -> Vec<Program> {
    let mut out = vec![];
    let mut seen = HashSet::new();
    let st_os: &[MO] = if full { &[Rlx, Rel, Sc] } else { &[Rlx, Rel] };
    let ld_os: &[MO] = if full { &[Rlx, Acq, Sc] } else { &[Rlx, Acq] };
    let mut walpha: Vec<Op> = vec![];
    for a in 0..nat {
        for &o in st_os {
            walpha.push(st(a, 0, o));
        }
        for &o in ld_os {
            walpha.push(ld(a, o));
        }
    }
    let wpool = seqs(&walpha, maxlen);
    let mut side: Vec<Option<Op>> = vec![None];
    if nat > 1 {
        side.push(Some(ld(1, Rlx)));
        side.push(Some(ld(1, Acq)));
        side.push(Some(st(1, 0, Rlx)));
    }
    side.push(Some(ld(0, Rlx)));
    for ws in thread_sets(&wpool, nwriters, maxlen * nwriters) {
        // number the stored values first (the waiter picks one of them)
        let ws = canon_atomic_children(ws, nat);
        let stored0: Vec<u64> = ws.iter().flatten().filter_map(|op| if let K::Store { a: 0, v, .. } = op.k { Some(v) } else { None }).collect();
        // the awaited atomic is written once (a transient value may legitimately be missed)
        if stored0.len() > 1 {
            continue;
        }
        let mut wants: Vec<u64> = stored0.clone();
        wants.push(77); // never stored: the loop can never exit
        // two loops in a row on two write-once atomics (still one thread spinning at a time)
        if nat > 1 {
            let stored1: Vec<u64> = ws.iter().flatten().filter_map(|op| if let K::Store { a: 1, v, .. } = op.k { Some(v) } else { None }).collect();
            if stored0.len() == 1 && stored1.len() == 1 {
                for &ao in ld_os {
                    for &bo in ld_os {
                        for order in 0..2 {
                            let first = K::Await { a: 0, mo: ao, want: stored0[0] };
                            let second = K::Await { a: 1, mo: bo, want: stored1[0] };
                            let w: Vec<Op> = if order == 0 { vec![first.into(), second.into()] } else { vec![second.into(), first.into()] };
                            let mut ch = ws.clone();
                            ch.push(w);
                            let p = with_main("SPIN2", atomics(nat), vec![], ch, vec![], (0..nat).map(|a| ld(a, Rlx)).collect());
                            if seen.insert(p.text()) {
                                out.push(p);
                            }
                        }
                    }
                }
            }
        }
        for &want in &wants {
            for &ao in ld_os {
                for pre in &side {
                    for post in &side {
                        let mut w: Vec<Op> = vec![];
                        if let Some(p) = pre {
                            w.push(p.clone());
                        }
                        w.push(K::Await { a: 0, mo: ao, want }.into());
                        if let Some(p) = post {
                            w.push(p.clone());
                        }
                        // the waiter's own stores get values that do not collide
                        let mut n = 50;
                        for op in w.iter_mut() {
                            if let K::Store { v, .. } = &mut op.k {
                                n += 1;
                                *v = n;
                            }
                        }
                        let mut ch = ws.clone();
                        ch.push(w);
                        let p = with_main("SPIN", atomics(nat), vec![], ch, vec![], (0..nat).map(|a| ld(a, Rlx)).collect());
                        if seen.insert(p.text()) {
                            out.push(p);
                        }
                    }
                }
            }
        }
    }
    out
}

pub fn spin_programs(tier: &str) -> Vec<Program> {
    use crate::ir::MO::*;
    let mut v = vec![];
    if tier == "quick" {
        v.extend(spin_family(1, 1, 2, false));
        v.extend(spin_family(2, 1, 2, false));
    } else {
        v.extend(spin_family(1, 1, 3, true));
        v.extend(spin_family(2, 1, 2, true));
        v.extend(spin_family(2, 2, 1, false));
    }
    // S34: tests/yield.rs shape; the store that ends the loop happens only if a CAS is won
    v.push(with_main("S34-yield", atomics(1), vec![], vec![vec![st(0, 1, Rel)]], vec![K::Await { a: 0, mo: Acq, want: 1 }.into()], vec![]));
    v.push(with_main(
        "S35-sometimes",
        atomics(2),
        vec![],
        vec![vec![cas(1, 0, 1, Rlx, Rlx), K::Store { a: 0, v: 1, mo: Rel }.when(0, Res::Ok(0))], vec![cas(1, 0, 2, Rlx, Rlx)], vec![K::Await { a: 0, mo: Acq, want: 1 }.into()]],
        vec![],
        vec![],
    ));
    v.extend(spin_obs_family(tier != "quick"));
    v.extend(spin_pingpong_family());
    // the same loops spinning with `hint::spin_loop()` instead of `thread::yield_now()`
    let step = if tier == "quick" { 4 } else { 1 };
    let hinted: Vec<Program> = v
        .iter()
        .step_by(step)
        .map(|p| {
            let mut q = p.clone();
            q.objs.spin_hint = true;
            q.name = format!("{}+hint", q.name);
            q
        })
        .collect();
    v.extend(hinted);
    v
}


/// Programs in which a thread owns (in its own frame) the last handle of an Arc whose payload's
/// `Drop` performs an atomic load and RMW: used with every branch limit (C06).
pub fn limit_crash_programs() -> Vec<Program> {
    let objs = |nh: usize| Objs { atomics: vec![0, 0], handles: nh, arcs: vec![None], arc_rmw: vec![Some(1)], ..Default::default() };
    vec![
        with_main(
            "LIMIT-main-holds",
            objs(2),
            vec![K::ArcNew { h: 0, arc: 0 }.into(), K::ArcHold { h: 0 }.into()],
            vec![vec![fadd(0, 1, Sc), fadd(0, 1, Sc)]],
            vec![fadd(0, 1, Sc), fadd(0, 1, Sc)],
            vec![K::ArcDrop { h: 0 }.into(), ld(1, Sc)],
        ),
        with_main(
            "LIMIT-child-holds",
            objs(4),
            vec![K::ArcNew { h: 0, arc: 0 }.into(), K::ArcClone { from: 0, to: 2 }.into(), K::ArcDrop { h: 0 }.into()],
            vec![vec![K::ArcHold { h: 2 }.into(), fadd(0, 1, Sc), ld(0, Sc), K::ArcDrop { h: 2 }.into()], vec![fadd(0, 1, Sc)]],
            vec![ld(0, Sc)],
            vec![ld(1, Sc)],
        ),
        with_main(
            "LIMIT-both-hold",
            objs(4),
            vec![K::ArcNew { h: 0, arc: 0 }.into(), K::ArcClone { from: 0, to: 2 }.into(), K::ArcHold { h: 0 }.into()],
            vec![vec![K::ArcHold { h: 2 }.into(), fadd(0, 1, Sc), K::ArcDrop { h: 2 }.into()]],
            vec![fadd(0, 1, Sc), K::ArcDrop { h: 0 }.into()],
            vec![ld(1, Sc)],
        ),
    ]
}

/// Spin loops mixed with blocking primitives: a flag store is inserted at every position of
/// every thread of small LOCK programs and a further thread spins (with yield) on the flag,
/// optionally taking the mutex afterwards.
pub fn spin_lock_family(tier: &str) -> Vec<Program> {
    let base = if tier == "quick" { lock_family(1, 0, 2, 2, 4, true, false) } else { lock_family(1, 0, 2, 3, 6, true, false) };
    let mut out = vec![];
    let mut seen = HashSet::new();
    for b in &base {
        let nchild = b.threads.len() - 1;
        for t in 1..=nchild {
            for pos in 0..=b.threads[t].len() {
                for tail in 0..2 {
                    let mut q = insert_op(b, t, pos, st(0, 1, Rel));
                    q.objs.atomics = vec![0];
                    let mut spinner: Vec<Op> = vec![K::Await { a: 0, mo: Acq, want: 1 }.into()];
                    if tail == 1 {
                        spinner.push(K::Lock { m: 0 }.into());
                        spinner.push(K::Unlock { m: 0 }.into());
                    }
                    // rebuild main: spawn all (incl. the spinner), join all
                    let mut children: Vec<Vec<Op>> = q.threads[1..].to_vec();
                    children.push(spinner);
                    let p = with_main("SPIN+LOCK", q.objs.clone(), vec![], children.clone(), vec![], vec![]);
                    if seen.insert(p.text()) {
                        out.push(p);
                    }
                    // the same with the last lock thread's ops run by main between spawn and join
                    // (three threads: main blocked on the mutex, a holder, the spinner)
                    if children.len() >= 3 {
                        let mut ch2 = children.clone();
                        let main_ops = ch2.remove(children.len() - 2);
                        if main_ops.iter().all(|o| o.g.is_none()) {
                            let p = with_main("SPIN+LOCK-main", q.objs.clone(), vec![], ch2, main_ops, vec![]);
                            if seen.insert(p.text()) {
                                out.push(p);
                            }
                        }
                    }
                }
            }
        }
    }
    out
}


// ------------------------------------------------------------------------------------------
// MIX: blocks of different primitive kinds in one program
// ------------------------------------------------------------------------------------------

/// Every thread runs 1..=maxblocks blocks drawn from: mutex section (with a data increment),
/// rwlock read / write section, condvar notify / guarded wait, Notify wait / notify, park /
/// unpark main, channel send, (main only) channel recv / try_recv.
pub fn mix_family(nchildren: usize, maxblocks: usize, main_blocks: usize, max_total_ops: usize) -> Vec<Program> {
    let child_blocks = |me: usize| -> Vec<Vec<Op>> {
        let mut b: Vec<Vec<Op>> = vec![
            vec![K::Lock { m: 0 }.into(), fadd(1, 1, Rlx), K::Unlock { m: 0 }.into()],
            vec![K::TryLock { m: 0 }.into(), K::FetchAdd { a: 1, v: 1, mo: Rlx }.when(0, Res::Ok(0)), K::Unlock { m: 0 }.when(0, Res::Ok(0))],
            vec![K::Read { l: 0 }.into(), K::UnlockR { l: 0 }.into()],
            vec![K::Write { l: 0 }.into(), K::UnlockW { l: 0 }.into()],
            vec![K::Lock { m: 0 }.into(), st(0, 1, Rlx), K::NotifyAll { cv: 0 }.into(), K::Unlock { m: 0 }.into()],
            vec![K::NNotify { n: 0 }.into()],
            vec![K::Send { ch: 0, v: 10 + me as u64 }.into()],
            vec![K::Unpark { t: 0 }.into()],
        ];
        if me == 1 {
            b.push(vec![K::NWait { n: 0 }.into()]);
        }
        b
    };
    let main_pool_blocks: Vec<Vec<Op>> = vec![
        vec![K::Lock { m: 0 }.into(), fadd(1, 1, Rlx), K::Unlock { m: 0 }.into()],
        vec![K::Lock { m: 0 }.into(), ld(0, Rlx), K::Wait { cv: 0, m: 0 }.when(1, Res::V(0)), K::Unlock { m: 0 }.into()],
        vec![K::Recv { ch: 0 }.into()],
        vec![K::TryRecv { ch: 0 }.into()],
        vec![K::Park.into()],
        vec![K::Write { l: 0 }.into(), K::UnlockW { l: 0 }.into()],
        vec![K::TryWrite { l: 0 }.into(), K::UnlockW { l: 0 }.when(0, Res::Ok(0))],
    ];
    let seq_blocks = |blocks: &Vec<Vec<Op>>, maxb: usize, allow_empty: bool| -> Vec<Vec<Op>> {
        let mut pool: Vec<Vec<Op>> = vec![];
        if allow_empty {
            pool.push(vec![]);
        }
        let mut cur: Vec<Vec<Vec<Op>>> = vec![vec![]];
        for _ in 0..maxb {
            let mut nxt = vec![];
            for s in &cur {
                for bl in blocks {
                    let mut s2 = s.clone();
                    s2.push(bl.clone());
                    nxt.push(s2);
                }
            }
            for s in &nxt {
                pool.push(concat_blocks(s));
            }
            cur = nxt;
        }
        pool
    };
    let mut pools: Vec<Vec<Vec<Op>>> = vec![seq_blocks(&main_pool_blocks, main_blocks, true)];
    for me in 1..=nchildren {
        pools.push(seq_blocks(&child_blocks(me), maxblocks, false));
    }
    fn rec(pools: &[Vec<Vec<Op>>], t: usize, cur: &mut Vec<Vec<Op>>, left: usize, out: &mut Vec<Vec<Vec<Op>>>) {
        if t == pools.len() {
            out.push(cur.clone());
            return;
        }
        for th in &pools[t] {
            if th.len() > left {
                continue;
            }
            cur.push(th.clone());
            rec(pools, t + 1, cur, left - th.len(), out);
            cur.pop();
        }
    }
    let mut combos = vec![];
    rec(&pools, 0, &mut vec![], max_total_ops, &mut combos);
    let mut out = vec![];
    let mut seen = HashSet::new();
    for c in combos {
        // at least two different kinds of primitive in the program
        let mut kinds = std::collections::BTreeSet::new();
        for op in c.iter().flatten() {
            for (k, _) in obj_refs_ro(&op.k) {
                if k != 0 {
                    kinds.insert(k);
                }
            }
            if matches!(op.k, K::Park | K::Unpark { .. }) {
                kinds.insert(9);
            }
        }
        if kinds.len() < 2 {
            continue;
        }
        let shift = nchildren;
        let main_mid: Vec<Op> = c[0]
            .iter()
            .cloned()
            .map(|mut op| {
                if let Some(g) = op.g.as_mut() {
                    g.idx += shift;
                }
                op
            })
            .collect();
        let objs = Objs { atomics: vec![0, 0], mutexes: 1, rwlocks: 1, condvars: 1, notifies: 1, chans: 1, ..Default::default() };
        let p = with_main("MIX", objs, vec![], c[1..].to_vec(), main_mid, vec![ld(1, Rlx)]);
        if seen.insert(p.text()) {
            out.push(p);
        }
    }
    out
}

pub fn mix_programs(tier: &str) -> Vec<Program> {
    if tier == "quick" {
        let mut v = mix_family(2, 1, 1, 10);
        v.extend(mix_family(1, 2, 1, 10));
        v
    } else {
        let mut v = mix_family(2, 1, 2, 14);
        v.extend(mix_family(2, 2, 1, 12));
        v.extend(mix_family(3, 1, 1, 12));
        v
    }
}

/// LOCK with arrival flags: every waiter raises its own flag before it asks for the lock and the
/// holder reads all flags inside its critical section, so an outcome tells which waiters were
/// already queued when the lock was released (and who got it next).
pub fn lock_arrival_family(tier: &str) -> Vec<Program> {
    let mut out = vec![];
    let nws: &[usize] = if tier == "quick" { &[2] } else { &[2, 3] };
    for &nw in nws {
        for rw in [false, true] {
            for holder_is_main in [true, false] {
                for try_waiter in [false, true] {
                    let acq = |t: bool| -> K {
                        if rw {
                            if t {
                                K::TryWrite { l: 0 }
                            } else {
                                K::Write { l: 0 }
                            }
                        } else if t {
                            K::TryLock { m: 0 }
                        } else {
                            K::Lock { m: 0 }
                        }
                    };
                    let rel = || if rw { K::UnlockW { l: 0 } } else { K::Unlock { m: 0 } };
                    // atomic 0 = data (only under the lock), atomics 1..=nw = arrival flags
                    let mut children: Vec<Vec<Op>> = vec![];
                    for w in 1..=nw {
                        let t = try_waiter && w == nw;
                        let mut th: Vec<Op> = vec![st(w, 1, Sc), acq(t).into()];
                        if t {
                            th.push(K::FetchAdd { a: 0, v: 1, mo: Rlx }.when(1, Res::Ok(0)));
                            th.push(rel().when(1, Res::Ok(0)));
                        } else {
                            th.push(fadd(0, 1, Rlx));
                            th.push(rel().into());
                        }
                        children.push(th);
                    }
                    let mut holder: Vec<Op> = vec![acq(false).into()];
                    for w in 1..=nw {
                        holder.push(ld(w, Sc));
                    }
                    holder.push(fadd(0, 1, Rlx));
                    holder.push(rel().into());
                    let objs = Objs { atomics: vec![0; nw + 1], mutexes: if rw { 0 } else { 1 }, rwlocks: if rw { 1 } else { 0 }, ..Default::default() };
                    let p = if holder_is_main {
                        with_main("LOCK-arrival", objs, vec![], children, holder, vec![ld(0, Rlx)])
                    } else {
                        if nw == 3 {
                            continue; // 5 threads with main: beyond MAX_THREADS bookkeeping of the reference
                        }
                        children.push(holder);
                        with_main("LOCK-arrival", objs, vec![], children, vec![], vec![ld(0, Rlx)])
                    };
                    out.push(p);
                }
            }
        }
    }
    out
}


/// Channel messages whose `Drop` performs a loom RMW: a message is already queued when the
/// receiver is dropped while another thread (which touched the same atomic before) sends.
pub fn chan_payload_family() -> Vec<Program> {
    let mut out = vec![];
    let objs = Objs { chans: 1, atomics: vec![0], chan_rmw: vec![Some(0)], ..Default::default() };
    let recvs: Vec<Vec<Op>> = vec![
        vec![K::DropRx { ch: 0 }.into()],
        vec![K::Recv { ch: 0 }.into(), K::DropRx { ch: 0 }.into()],
        vec![K::TryRecv { ch: 0 }.into(), K::DropRx { ch: 0 }.into()],
        vec![K::Recv { ch: 0 }.into()],
    ];
    for presends in 1..=2u64 {
        for r in &recvs {
            for nsend in 1..=2u64 {
                for touch in [true, false] {
                    let pre: Vec<Op> = (0..presends).map(|i| Op::from(K::Send { ch: 0, v: 90 + i })).collect();
                    let mut sender: Vec<Op> = vec![];
                    if touch {
                        sender.push(st(0, 7, Sc));
                    }
                    for i in 0..nsend {
                        sender.push(K::Send { ch: 0, v: 1 + i }.into());
                    }
                    out.push(with_main("CHAN+payload", objs.clone(), pre, vec![sender, r.clone()], vec![], vec![]));
                }
            }
        }
    }
    out
}

/// Deadlocks in which one thread blocks forever while *holding* a lock that another thread
/// needs to return from `Condvar::wait` / to lock (so destructors run while the lock is held
/// by somebody else when the deadlock panic unwinds).
pub fn held_lock_deadlocks() -> Vec<Program> {
    let o = Objs { atomics: vec![0], mutexes: 2, condvars: 1, ..Default::default() };
    let lk = |m| Op::from(K::Lock { m });
    let ul = |m| Op::from(K::Unlock { m });
    vec![
        // main notifies and then joins the waiter while still holding the mutex
        with_main("DL-join-holding", o.clone(), vec![], vec![vec![lk(0), K::Wait { cv: 0, m: 0 }.into(), ul(0)]], vec![lk(0), K::NotifyOne { cv: 0 }.into()], vec![ul(0)]),
        // the same with the roles swapped: the spawned thread holds the mutex and blocks on a second one
        with_main(
            "DL-child-holding",
            o.clone(),
            vec![lk(1)],
            vec![vec![lk(0), K::NotifyAll { cv: 0 }.into(), lk(1), ul(1), ul(0)]],
            vec![lk(0), K::Wait { cv: 0, m: 0 }.into(), ul(0)],
            vec![ul(1)],
        ),
        // a plain locker instead of a condvar waiter
        with_main("DL-lock-holding", o.clone(), vec![], vec![vec![lk(0), ul(0)]], vec![lk(0)], vec![ul(0)]),
    ]
}

/// Nested spawn: main spawns T1 and runs one op; T1 (optionally after an op) spawns T2 and
/// (optionally) runs another op; T2 runs 1..=2 ops. A thread that does not exist yet when a
/// racing access happens is enabled by a third thread, not by the one it races with.
pub fn a_sc_nested(nat: usize, t2_len: usize) -> Vec<Program> {
    let mut alpha: Vec<Op> = vec![];
    for a in 0..nat {
        alpha.push(fadd(a, 0, Sc));
        alpha.push(swap(a, 0, Sc));
    }
    let opt: Vec<Option<Op>> = std::iter::once(None).chain(alpha.iter().cloned().map(Some)).collect();
    let mut out = vec![];
    let mut seen = HashSet::new();
    for m in &alpha {
        for pre in &opt {
            for post in &opt {
                for t2 in seqs(&alpha, t2_len) {
                    let mut t1: Vec<Op> = vec![];
                    if let Some(p) = pre {
                        t1.push(p.clone());
                    }
                    t1.push(K::Spawn { t: 2 }.into());
                    if let Some(p) = post {
                        t1.push(p.clone());
                    }
                    let mut main: Vec<Op> = vec![K::Spawn { t: 1 }.into(), m.clone(), K::Join { t: 1 }.into(), K::Join { t: 2 }.into()];
                    for a in 0..nat {
                        main.push(ld(a, Sc));
                    }
                    let mut threads = vec![main, t1, t2];
                    let used = threads.iter().flatten().filter_map(|o| atomic_of(&o.k)).max().map(|x| x + 1).unwrap_or(0);
                    if used != nat {
                        continue;
                    }
                    let mut v = 0u64;
                    for op in threads.iter_mut().flatten() {
                        if let K::Swap { v: x, .. } = &mut op.k {
                            v += 1;
                            *x = v;
                        }
                    }
                    let p = Program { name: "A-sc-nested".into(), objs: atomics(nat), threads };
                    if seen.insert(p.text()) {
                        out.push(p);
                    }
                }
            }
        }
    }
    out
}

/// LIT with staggered spawns: main spawns T1, runs its own accesses / fences, then spawns T2
/// (what the parent did before a spawn happens-before the child, but does not turn the child's
/// relaxed stores into releases).
pub fn lit_spawn_stagger(full: bool) -> Vec<Program> {
    let mut main_alpha: Vec<Op> = vec![st(0, 0, Rlx), st(0, 0, Rel), fence(Rel), fence(Sc), fence(Acq)];
    let mut t1_alpha: Vec<Op> = vec![ld(0, Rlx), ld(0, Acq), ld(1, Rlx), ld(1, Acq)];
    let mut t2_alpha: Vec<Op> = vec![st(1, 0, Rlx), st(1, 0, Rel), fadd(1, 1, Rlx), fadd(1, 1, AcqRel)];
    if full {
        main_alpha.extend([st(1, 0, Rlx), ld(1, Rlx), fence(AcqRel), st(0, 0, Sc)]);
        t1_alpha.extend([fence(Acq), fence(Sc), ld(0, Sc), st(1, 0, Rlx)]);
        t2_alpha.extend([ld(0, Rlx), ld(0, Acq), st(1, 0, Sc), fence(Rel)]);
    }
    let main_seqs: Vec<Vec<Op>> = seqs(&main_alpha, 2).into_iter().filter(|s| s.iter().any(|o| matches!(o.k, K::Store { .. }))).collect();
    let t1_seqs = seqs(&t1_alpha, 2);
    let t2_seqs = seqs(&t2_alpha, if full { 2 } else { 1 });
    let mut out = vec![];
    let mut seen = HashSet::new();
    for m in &main_seqs {
        for t1 in &t1_seqs {
            for t2 in &t2_seqs {
                let mut main: Vec<Op> = vec![K::Spawn { t: 1 }.into()];
                main.extend(m.iter().cloned());
                main.push(K::Spawn { t: 2 }.into());
                main.push(K::Join { t: 1 }.into());
                main.push(K::Join { t: 2 }.into());
                main.push(ld(0, Rlx));
                main.push(ld(1, Rlx));
                let mut threads = vec![main, t1.clone(), t2.clone()];
                // both locations must be in play
                let touched1 = threads.iter().flatten().any(|o| atomic_of(&o.k) == Some(1) && !matches!(o.k, K::Load { .. }));
                let read0 = threads[1..].iter().flatten().any(|o| atomic_of(&o.k) == Some(0));
                if !touched1 || !read0 {
                    continue;
                }
                let mut v = 0u64;
                let mut f = 0u64;
                for op in threads.iter_mut().flatten() {
                    match &mut op.k {
                        K::Store { v: x, .. } => {
                            v += 1;
                            *x = v;
                        }
                        K::FetchAdd { v: x, .. } if *x != 0 => {
                            f += 1;
                            *x = 16 * f;
                        }
                        _ => {}
                    }
                }
                let p = Program { name: "LIT-spawn-stagger".into(), objs: atomics(2), threads };
                if seen.insert(p.text()) {
                    out.push(p);
                }
            }
        }
    }
    out
}

/// LOCK-value: the value protected by a Mutex / RwLock. Children run lock sections that read and
/// overwrite the protected value through their guard; after the joins main reads it back through
/// `get_mut` and `into_inner`. Every section's read must return what the previous section (in the
/// executed order) wrote, and the final calls return the last write.
pub fn lock_value_family(full: bool) -> Vec<Program> {
    let mut out = vec![];
    // ---- mutex
    let mblock = |kind: usize, v: u64| -> Vec<Op> {
        match kind {
            0 => vec![K::Lock { m: 0 }.into(), K::GGet { m: 0 }.into(), K::GSet { m: 0, v }.into(), K::Unlock { m: 0 }.into()],
            1 => vec![K::Lock { m: 0 }.into(), K::GSet { m: 0, v }.into(), K::GGet { m: 0 }.into(), K::Unlock { m: 0 }.into()],
            _ => vec![K::TryLock { m: 0 }.into(), K::GGet { m: 0 }.when(0, Res::Ok(0)), K::GSet { m: 0, v }.when(0, Res::Ok(0)), K::Unlock { m: 0 }.when(0, Res::Ok(0))],
        }
    };
    let tails_m: Vec<(&str, Vec<Op>)> = vec![
        ("gm+ii", vec![K::MGetMut { m: 0 }.into(), K::MIntoInner { m: 0 }.into()]),
        ("ii", vec![K::MIntoInner { m: 0 }.into()]),
        ("lock+gm", vec![K::Lock { m: 0 }.into(), K::GGet { m: 0 }.into(), K::Unlock { m: 0 }.into(), K::MGetMut { m: 0 }.into()]),
    ];
    let om = Objs { mutexes: 1, ..Default::default() };
    for nch in 2..=3usize {
        let total = 3usize.pow(nch as u32);
        for code in 0..total {
            let kinds: Vec<usize> = (0..nch).map(|i| code / 3usize.pow(i as u32) % 3).collect();
            // children are interchangeable up to their values: keep sorted kind vectors only
            if kinds.windows(2).any(|w| w[0] > w[1]) {
                continue;
            }
            for mid in 0..2 {
                for (ti, (tn, tail)) in tails_m.iter().enumerate() {
                    if !full && nch == 3 && (mid == 1 || ti != 0) {
                        continue;
                    }
                    let children: Vec<Vec<Op>> = kinds.iter().enumerate().map(|(i, k)| mblock(*k, 10 * (i as u64 + 1))).collect();
                    let main_mid = if mid == 1 { mblock(0, 5) } else { vec![] };
                    out.push(with_main(&format!("LOCKVAL-m-{:?}-{}-{}", kinds, mid, tn), om.clone(), vec![], children, main_mid, tail.clone()));
                }
            }
        }
    }
    // two sections per child
    for k1 in 0..3 {
        for k2 in 0..3 {
            for k3 in 0..3 {
                let mut c1 = mblock(k1, 10);
                let off = c1.len();
                let mut second = mblock(k2, 11);
                for op in second.iter_mut() {
                    if let Some(g) = op.g.as_mut() {
                        g.idx += off;
                    }
                }
                c1.extend(second);
                let c2 = mblock(k3, 20);
                out.push(with_main(&format!("LOCKVAL-m2-{}{}{}", k1, k2, k3), om.clone(), vec![], vec![c1, c2], vec![], tails_m[0].1.clone()));
            }
        }
    }
    // ---- rwlock
    let lblock = |kind: usize, v: u64| -> Vec<Op> {
        match kind {
            0 => vec![K::Write { l: 0 }.into(), K::LGet { l: 0 }.into(), K::LSet { l: 0, v }.into(), K::UnlockW { l: 0 }.into()],
            1 => vec![K::Read { l: 0 }.into(), K::LGet { l: 0 }.into(), K::UnlockR { l: 0 }.into()],
            2 => vec![K::TryWrite { l: 0 }.into(), K::LSet { l: 0, v }.when(0, Res::Ok(0)), K::LGet { l: 0 }.when(0, Res::Ok(0)), K::UnlockW { l: 0 }.when(0, Res::Ok(0))],
            _ => vec![K::TryRead { l: 0 }.into(), K::LGet { l: 0 }.when(0, Res::Ok(0)), K::UnlockR { l: 0 }.when(0, Res::Ok(0))],
        }
    };
    let tails_l: Vec<(&str, Vec<Op>)> = vec![
        ("gm+ii", vec![K::LGetMut { l: 0 }.into(), K::LIntoInner { l: 0 }.into()]),
        ("ii", vec![K::LIntoInner { l: 0 }.into()]),
        ("read+gm", vec![K::Read { l: 0 }.into(), K::LGet { l: 0 }.into(), K::UnlockR { l: 0 }.into(), K::LGetMut { l: 0 }.into()]),
    ];
    let ol = Objs { rwlocks: 1, ..Default::default() };
    for nch in 2..=3usize {
        let total = 4usize.pow(nch as u32);
        for code in 0..total {
            let kinds: Vec<usize> = (0..nch).map(|i| code / 4usize.pow(i as u32) % 4).collect();
            if kinds.windows(2).any(|w| w[0] > w[1]) {
                continue;
            }
            // at least one writer, otherwise the value never changes
            if !kinds.iter().any(|k| *k == 0 || *k == 2) {
                continue;
            }
            for mid in 0..3 {
                for (ti, (tn, tail)) in tails_l.iter().enumerate() {
                    if !full && nch == 3 && (mid != 0 || ti != 0) {
                        continue;
                    }
                    let children: Vec<Vec<Op>> = kinds.iter().enumerate().map(|(i, k)| lblock(*k, 10 * (i as u64 + 1))).collect();
                    let main_mid = match mid {
                        0 => vec![],
                        1 => lblock(0, 5),
                        _ => lblock(1, 0),
                    };
                    out.push(with_main(&format!("LOCKVAL-l-{:?}-{}-{}", kinds, mid, tn), ol.clone(), vec![], children, main_mid, tail.clone()));
                }
            }
        }
    }
    out
}

/// LIT-coh3: coherence across a happens-before edge through a *third* thread. Thread A accesses
/// `x` and then publishes a flag, thread B subscribes to the flag and then accesses `x` once or
/// twice, thread C accesses `x` on its own (the store A reads from / B competes with). With
/// release/acquire (or fences) between A and B the four coherence shapes CoRR / CoRW / CoWR /
/// CoWW must hold across threads; without synchronisation the extra outcomes must show up.
/// `full` adds the unsynchronised variant, RMW publication and a two-hop chain A -> B -> B'.
pub fn lit_coh3(full: bool) -> Vec<Program> {
    let xops: Vec<Op> = vec![ld(0, Rlx), st(0, 0, Rlx), swap(0, 0, Rlx)];
    let mut syncs: Vec<(Vec<Op>, Vec<Op>)> = vec![
        (vec![st(1, 0, Rel)], vec![ld(1, Acq)]),
        (vec![fence(Rel), st(1, 0, Rlx)], vec![ld(1, Rlx), fence(Acq)]),
    ];
    if full {
        syncs.push((vec![st(1, 0, Rlx)], vec![ld(1, Rlx)]));
        syncs.push((vec![swap(1, 0, AcqRel)], vec![fadd(1, 0, AcqRel)]));
        syncs.push((vec![st(1, 0, Sc)], vec![ld(1, Sc)]));
    }
    let one: Vec<Vec<Op>> = xops.iter().map(|o| vec![o.clone()]).collect();
    let two: Vec<Vec<Op>> = xops.iter().flat_map(|a| xops.iter().map(move |b| vec![a.clone(), b.clone()])).collect();
    let mut out = vec![];
    let mut seen = HashSet::new();
    let mut push = |ch: Vec<Vec<Op>>, nat: usize, out: &mut Vec<Program>| {
        // at least two writes to x, or nothing can be ordered
        let writes = ch.iter().flatten().filter(|o| matches!(o.k, K::Store { a: 0, .. } | K::Swap { a: 0, .. })).count();
        if writes < 2 {
            return;
        }
        let ch = canon_atomic_children(ch, nat);
        let p = finish_atomic_program("LIT-coh3", ch, Rlx);
        if seen.insert(p.text()) {
            out.push(p);
        }
    };
    for (publ, subs) in &syncs {
        for a1 in &one {
            let a: Vec<Op> = a1.iter().cloned().chain(publ.iter().cloned()).collect();
            let shapes: Vec<(&Vec<Vec<Op>>, &Vec<Vec<Op>>)> = if full { vec![(&two, &one), (&one, &two), (&two, &two)] } else { vec![(&two, &one), (&one, &two)] };
            for (bs, cs) in shapes {
                for b1 in bs.iter() {
                    let b: Vec<Op> = subs.iter().cloned().chain(b1.iter().cloned()).collect();
                    for c in cs.iter() {
                        push(vec![a.clone(), b.clone(), c.clone()], 2, &mut out);
                    }
                }
            }
        }
    }
    if full {
        // two hops: A publishes f, B republishes g, B' accesses x; C writes x
        let hop: Vec<(Vec<Op>, Vec<Op>, Vec<Op>, Vec<Op>)> = vec![
            (vec![st(1, 0, Rel)], vec![ld(1, Acq)], vec![st(2, 0, Rel)], vec![ld(2, Acq)]),
            (vec![st(1, 0, Rel)], vec![ld(1, Rlx)], vec![st(2, 0, Rel)], vec![ld(2, Acq)]),
            (vec![st(1, 0, Rel)], vec![ld(1, Acq)], vec![st(2, 0, Rlx)], vec![ld(2, Acq)]),
        ];
        for (p1, s1, p2, s2) in &hop {
            for a1 in &one {
                let a: Vec<Op> = a1.iter().cloned().chain(p1.iter().cloned()).collect();
                let b: Vec<Op> = s1.iter().cloned().chain(p2.iter().cloned()).collect();
                for b1 in one.iter().chain(two.iter()) {
                    let b2: Vec<Op> = s2.iter().cloned().chain(b1.iter().cloned()).collect();
                    for c in &one {
                        push(vec![a.clone(), b.clone(), b2.clone(), c.clone()], 3, &mut out);
                    }
                }
            }
        }
    }
    out
}

/// WAIT-rounds: one primitive reused for several notify / wait rounds, the rounds separated by
/// write-once acknowledgement flags (so that no notification can be merged with the next one and
/// the program never deadlocks). Per-object state that must survive a completed round - the one
/// spurious return of a `Notify`, the park token, the condvar queue - is exercised a second and a
/// third time.
pub fn wait_rounds() -> Vec<Program> {
    let mut out = vec![];
    for rounds in 2..=3usize {
        for kind in 0..3 {
            // kind 0: Notify, 1: park/unpark, 2: condvar with a predicate under the mutex
            for waiter_is_main in [false, true] {
                if kind == 1 && !waiter_is_main {
                    // the unparker needs the waiter's handle: main can only unpark children after
                    // the spawn, which is the case below (waiter = child 1, notifier = main)
                }
                let mut w: Vec<Op> = vec![];
                let mut n: Vec<Op> = vec![];
                let wt = if waiter_is_main { 0 } else { 1 };
                for i in 0..rounds {
                    match kind {
                        0 => {
                            w.push(K::NWait { n: 0 }.into());
                            n.push(K::NNotify { n: 0 }.into());
                        }
                        1 => {
                            w.push(K::Park.into());
                            n.push(K::Unpark { t: wt }.into());
                        }
                        _ => {
                            // waiter: lock; if pred != i+1 { wait }; unlock   (pred is a round counter)
                            let base = w.len();
                            w.push(K::Lock { m: 0 }.into());
                            w.push(ld(rounds - 1, Rlx));
                            w.push(K::Wait { cv: 0, m: 0 }.when(base + 1, Res::V(i as u64)));
                            w.push(K::Unlock { m: 0 }.into());
                            n.push(K::Lock { m: 0 }.into());
                            n.push(st(rounds - 1, i as u64 + 1, Rlx));
                            n.push(K::NotifyOne { cv: 0 }.into());
                            n.push(K::Unlock { m: 0 }.into());
                        }
                    }
                    if i + 1 < rounds {
                        w.push(st(i, 1, Sc));
                        n.push(K::Await { a: i, mo: Sc, want: 1 }.into());
                    }
                }
                let objs = Objs { atomics: vec![0; rounds], notifies: 1, mutexes: 1, condvars: 1, ..Default::default() };
                let name = format!("WAIT-rounds-{}-{}-{}", ["notify", "park", "cv"][kind], rounds, if waiter_is_main { "main" } else { "child" });
                if waiter_is_main {
                    out.push(with_main(&name, objs, vec![], vec![n], w, vec![]));
                } else if kind == 1 {
                    out.push(with_main(&name, objs, vec![], vec![w], n, vec![]));
                } else {
                    out.push(with_main(&name, objs.clone(), vec![], vec![w.clone()], n.clone(), vec![]));
                    out.push(with_main(&format!("{}-2ch", name), objs, vec![], vec![w, n], vec![], vec![]));
                }
            }
        }
    }
    out
}

/// LOCK-nested: a blocking operation *inside* a lock section. Two threads each run
/// `acquire; inner; release`, where the inner operations form a rendezvous (recv / send,
/// Notify wait / notify, or main joining the other thread), optionally with a third thread
/// running a plain section. Whether the program can deadlock depends on whether the two
/// acquisitions are compatible (two readers: never; a writer or a mutex: in some orders).
pub fn lock_nested_family(with_third: bool) -> Vec<Program> {
    // (acquire, release) on rwlock 0 / mutex 0; `at` = index of the acquire in the thread
    let sect = |kind: usize, at: usize, inner: Option<K>| -> Vec<Op> {
        let (acq, rel): (K, K) = match kind {
            0 => (K::Read { l: 0 }, K::UnlockR { l: 0 }),
            1 => (K::Write { l: 0 }, K::UnlockW { l: 0 }),
            2 => (K::TryRead { l: 0 }, K::UnlockR { l: 0 }),
            3 => (K::TryWrite { l: 0 }, K::UnlockW { l: 0 }),
            4 => (K::Lock { m: 0 }, K::Unlock { m: 0 }),
            _ => (K::TryLock { m: 0 }, K::Unlock { m: 0 }),
        };
        let tr = matches!(kind, 2 | 3 | 5);
        let mut v: Vec<Op> = vec![acq.into()];
        if let Some(k) = inner {
            // the inner op runs whether or not a try-acquire succeeded (the rendezvous partner
            // must not depend on it)
            v.push(k.into());
        }
        v.push(if tr { rel.when(at, Res::Ok(0)) } else { rel.into() });
        v
    };
    let objs = Objs { rwlocks: 1, mutexes: 1, chans: 1, notifies: 1, ..Default::default() };
    let mut out = vec![];
    for ka in 0..6 {
        for kb in 0..6 {
            // both on the same lock object, otherwise nothing interacts
            if (ka < 4) != (kb < 4) {
                continue;
            }
            // the third thread runs a plain section: every kind, or only the blocking exclusive
            // one (write / lock) in the reduced variant
            let thirds: Vec<Option<usize>> = if with_third { std::iter::once(None).chain((0..6).filter(|k| (*k < 4) == (ka < 4)).map(Some)).collect() } else { vec![None, Some(if ka < 4 { 1 } else { 4 })] };
            for third in thirds {
                for pairing in 0..3 {
                    let name = format!("LOCK-nested-{}{}-{}-{:?}", ka, kb, ["chan", "notify", "join"][pairing], third);
                    match pairing {
                        0 | 1 => {
                            let (wi, ni) = if pairing == 0 { (K::Recv { ch: 0 }, K::Send { ch: 0, v: 7 }) } else { (K::NWait { n: 0 }, K::NNotify { n: 0 }) };
                            let mut ch = vec![sect(ka, 0, Some(wi)), sect(kb, 0, Some(ni))];
                            if let Some(k3) = third {
                                ch.push(sect(k3, 0, None));
                            }
                            out.push(with_main(&name, objs.clone(), vec![], ch, vec![], vec![]));
                        }
                        _ => {
                            // main acquires after the spawns and releases after the joins
                            let mut ch = vec![sect(kb, 0, None)];
                            if let Some(k3) = third {
                                ch.push(sect(k3, 0, None));
                            }
                            let at = ch.len();
                            let s = sect(ka, at, None);
                            out.push(with_main(&name, objs.clone(), vec![], ch, vec![s[0].clone()], vec![s[1].clone()]));
                        }
                    }
                }
            }
        }
    }
    out
}

/// ARC-seq / ALLOC-seq: every well-formed *sequence* of reference-count / allocation operations
/// of main alone, up to `depth` ops (no concurrency: one iteration each). The registries keyed by
/// address (arcs, raw allocations) see an address released and handed out again within one
/// execution; whatever is still alive at the end must be reported as leaked, and nothing else.
pub fn arc_seq_family(depth: usize) -> Vec<Program> {
    // state: handle slot -> arc id; arc id -> (count, forgotten)
    #[derive(Clone)]
    struct S {
        h: [Option<usize>; 2],
        cnt: [u32; 2],
        ever: [bool; 2],
    }
    fn go(s: &S, ops: &mut Vec<Op>, depth: usize, out: &mut Vec<Program>) {
        if !ops.is_empty() {
            let objs = Objs { handles: 2, arcs: vec![None, None], ..Default::default() };
            out.push(Program { name: "ARC-seq".into(), objs, threads: vec![ops.clone()] });
        }
        if ops.len() == depth {
            return;
        }
        let mut next: Vec<(K, S)> = vec![];
        for h in 0..2 {
            let o = 1 - h;
            match s.h[h] {
                None => {
                    // a fresh arc (lowest id that is not alive; a forgotten one stays alive)
                    if let Some(a) = (0..2).find(|a| s.cnt[*a] == 0 && !(s.ever[*a] && ops.len() + 1 == depth)) {
                        let mut n = s.clone();
                        n.h[h] = Some(a);
                        n.cnt[a] = 1;
                        n.ever[a] = true;
                        next.push((K::ArcNew { h, arc: a }, n));
                    }
                }
                Some(a) => {
                    let dec = |n: &mut S| {
                        n.h[h] = None;
                        n.cnt[a] -= 1;
                    };
                    let mut n = s.clone();
                    dec(&mut n);
                    next.push((K::ArcDrop { h }, n.clone()));
                    next.push((K::ArcDecStrong { h }, n));
                    let mut n = s.clone();
                    n.h[h] = None;
                    next.push((K::ArcForget { h }, n));
                    next.push((K::ArcCount { h }, s.clone()));
                    next.push((K::ArcGetMut { h }, s.clone()));
                    next.push((K::ArcRawRoundTrip { h }, s.clone()));
                    let mut n = s.clone();
                    if s.cnt[a] == 1 {
                        dec(&mut n);
                    }
                    next.push((K::ArcTryUnwrap { h }, n));
                    if s.h[o].is_none() {
                        let mut n = s.clone();
                        n.h[o] = Some(a);
                        n.cnt[a] += 1;
                        next.push((K::ArcClone { from: h, to: o }, n.clone()));
                        next.push((K::ArcIncStrong { h, to: o }, n));
                    } else if h == 0 {
                        next.push((K::ArcPtrEq { h: 0, h2: 1 }, s.clone()));
                    }
                }
            }
        }
        for (k, n) in next {
            ops.push(k.into());
            go(&n, ops, depth, out);
            ops.pop();
        }
    }
    let mut out = vec![];
    go(&S { h: [None, None], cnt: [0, 0], ever: [false, false] }, &mut vec![], depth, &mut out);
    // the reference releases nothing implicitly except the handles still in their slots; keep
    // only sequences that contain a release followed by a new allocation, or end alive (the
    // rest is covered by the concurrent ARC family)
    out.retain(|p| {
        let ops = &p.threads[0];
        let rel = ops.iter().position(|o| matches!(o.k, K::ArcDrop { .. } | K::ArcDecStrong { .. } | K::ArcTryUnwrap { .. }));
        match rel {
            Some(i) => ops[i + 1..].iter().any(|o| matches!(o.k, K::ArcNew { .. })),
            None => false,
        }
    });
    out
}

pub fn alloc_seq_family(depth: usize) -> Vec<Program> {
    // slots: 2 raw allocations, 1 Track, 1 arc handle; slot state 0 empty, 1 live
    fn go(st: [u8; 4], ops: &mut Vec<Op>, depth: usize, out: &mut Vec<Program>) {
        if !ops.is_empty() {
            let objs = Objs { handles: 1, arcs: vec![None], allocs: 2, tracks: 1, ..Default::default() };
            out.push(Program { name: "ALLOC-seq".into(), objs, threads: vec![ops.clone()] });
        }
        if ops.len() == depth {
            return;
        }
        let mut next: Vec<(K, [u8; 4])> = vec![];
        for k in 0..2 {
            let mut n = st;
            if st[k] == 0 {
                n[k] = 1;
                next.push((K::Alloc { k }, n));
            } else {
                n[k] = 0;
                next.push((K::Dealloc { k }, n));
            }
        }
        let mut n = st;
        if st[2] == 0 {
            n[2] = 1;
            next.push((K::TrackNew { k: 0 }, n));
        } else if st[2] == 1 {
            n[2] = 0;
            next.push((K::TrackDrop { k: 0 }, n));
            // a forgotten value stays leaked: the slot is not used again (the reference keeps one
            // state per slot)
            n[2] = 2;
            next.push((K::TrackForget { k: 0 }, n));
        }
        let mut n = st;
        if st[3] == 0 {
            n[3] = 1;
            next.push((K::ArcNew { h: 0, arc: 0 }, n));
        } else {
            n[3] = 0;
            next.push((K::ArcDrop { h: 0 }, n));
            next.push((K::ArcTryUnwrap { h: 0 }, n));
            next.push((K::ArcRawRoundTrip { h: 0 }, st));
        }
        for (k, n) in next {
            ops.push(k.into());
            go(n, ops, depth, out);
            ops.pop();
        }
    }
    let mut out = vec![];
    go([0; 4], &mut vec![], depth, &mut out);
    out
}

/// WAIT-loop: the canonical usage of the waiting primitives - `while !flag { wait }` - with a
/// relaxed flag, so that what the waiter learns comes through the notification itself.
/// Notifier blocks per flag: store-then-notify (correct), notify-then-store (lost wake-up
/// possible), for the condvar also outside the mutex. One waiter with 1-2 flags and 1-2
/// notifier threads (so two notifications can be pending at once), the waiter being main or a
/// child; for the condvar also two waiters with notify_one / notify_all.
pub fn wait_loop_family(full: bool) -> Vec<Program> {
    let mut out = vec![];
    let mut seen = HashSet::new();
    let objs = |nflags: usize| Objs { atomics: vec![0; nflags], notifies: 1, mutexes: 1, condvars: 1, ..Default::default() };
    // notifier block for flag `i`, primitive `prim`, variant `v`, waiter thread `w`
    let nblock = |prim: usize, v: usize, i: usize, w: usize| -> Option<Vec<Op>> {
        let s = st(i, 1, Rlx);
        Some(match (prim, v) {
            (0, 0) => vec![s, K::NNotify { n: 0 }.into()],
            (0, 1) => vec![K::NNotify { n: 0 }.into(), s],
            (1, 0) => vec![s, K::Unpark { t: w }.into()],
            (1, 1) => vec![K::Unpark { t: w }.into(), s],
            (2, 0) => vec![K::Lock { m: 0 }.into(), s, K::NotifyOne { cv: 0 }.into(), K::Unlock { m: 0 }.into()],
            (2, 1) => vec![K::Lock { m: 0 }.into(), s, K::Unlock { m: 0 }.into(), K::NotifyOne { cv: 0 }.into()],
            (2, 2) => vec![s, K::NotifyOne { cv: 0 }.into()],
            (2, 3) => vec![K::Lock { m: 0 }.into(), s, K::NotifyAll { cv: 0 }.into(), K::Unlock { m: 0 }.into()],
            _ => return None,
        })
    };
    let wloop = |prim: usize, i: usize| -> Vec<Op> {
        match prim {
            0 => vec![K::NWaitUntil { n: 0, a: i, mo: Rlx, want: 1 }.into()],
            1 => vec![K::ParkUntil { a: i, mo: Rlx, want: 1 }.into()],
            _ => vec![K::Lock { m: 0 }.into(), K::CvWaitUntil { cv: 0, m: 0, a: i, mo: Rlx, want: 1 }.into(), K::Unlock { m: 0 }.into()],
        }
    };
    let mut push = |p: Program, out: &mut Vec<Program>| {
        if seen.insert(p.text()) {
            out.push(p);
        }
    };
    for prim in 0..3 {
        let nv = if prim == 2 { 4 } else { 2 };
        for nflags in 1..=2usize {
            let waiter: Vec<Op> = (0..nflags).flat_map(|i| wloop(prim, i)).collect();
            // variants per flag
            let vsets: Vec<Vec<usize>> = if nflags == 1 { (0..nv).map(|v| vec![v]).collect() } else { (0..nv).flat_map(|a| (0..nv).map(move |b| vec![a, b])).collect() };
            for vs in &vsets {
                if !full && nflags == 2 && vs[0] != 0 && vs[1] != 0 {
                    continue;
                }
                for order in 0..nflags {
                    // flags notified in order / reversed
                    let idx: Vec<usize> = if order == 0 { (0..nflags).collect() } else { (0..nflags).rev().collect() };
                    // S1: main waits, one child notifies everything
                    let one: Vec<Op> = idx.iter().flat_map(|&i| nblock(prim, vs[i], i, 0).unwrap()).collect();
                    push(with_main(&format!("WAIT-loop-{}-S1", prim), objs(nflags), vec![], vec![one.clone()], waiter.clone(), vec![]), &mut out);
                    // S3: a child waits, main notifies (after the spawn)
                    let one_c: Vec<Op> = idx.iter().flat_map(|&i| nblock(prim, vs[i], i, 1).unwrap()).collect();
                    push(with_main(&format!("WAIT-loop-{}-S3", prim), objs(nflags), vec![], vec![waiter.clone()], one_c, vec![]), &mut out);
                    if nflags == 2 {
                        // S2: main waits, two children notify one flag each
                        let ch: Vec<Vec<Op>> = idx.iter().map(|&i| nblock(prim, vs[i], i, 0).unwrap()).collect();
                        push(with_main(&format!("WAIT-loop-{}-S2", prim), objs(nflags), vec![], ch, waiter.clone(), vec![]), &mut out);
                    }
                }
            }
        }
    }
    // condvar, two waiters with a flag each; one notifier
    for v0 in 0..4 {
        for v1 in 0..4 {
            if !full && v0 != 0 && v0 != 3 && v1 != 0 && v1 != 3 {
                continue;
            }
            let n: Vec<Op> = nblock(2, v0, 0, 0).unwrap().into_iter().chain(nblock(2, v1, 1, 0).unwrap()).collect();
            push(with_main("WAIT-loop-cv-2w", objs(2), vec![], vec![wloop(2, 1), n.clone()], wloop(2, 0), vec![]), &mut out);
            if full {
                push(with_main("WAIT-loop-cv-2w-3ch", objs(2), vec![], vec![wloop(2, 0), wloop(2, 1), n], vec![], vec![]), &mut out);
            }
        }
    }
    out
}

/// ARC-reclone: the count goes 2 -> 1 -> 2 -> ... -> 0. Remote threads read the cell and drop
/// their handle, then raise a relaxed flag (no synchronisation); only then does the remaining
/// owner clone again (clone / increment_strong_count) and the handles are released in every
/// order, possibly by a third thread. The payload's Drop writes the cell: the remote drops must
/// still happen-before the final one although the Arc was unique for a while.
pub fn arc_reclone_family() -> Vec<Program> {
    let mut out = vec![];
    for nremote in 1..=2usize {
        let mut pre: Vec<Op> = vec![K::ArcNew { h: 0, arc: 0 }.into()];
        for t in 1..=nremote {
            pre.push(K::ArcClone { from: 0, to: 2 * t }.into());
        }
        let remote: Vec<Vec<Op>> = (1..=nremote).map(|t| vec![rd(0), K::ArcDrop { h: 2 * t }.into(), st(t - 1, 1, Rlx)]).collect();
        let awaits: Vec<Op> = (0..nremote).map(|a| K::Await { a, mo: Rlx, want: 1 }.into()).collect();
        let nh = 2 * nremote + 2; // the new handle slot
        for inc in [false, true] {
            let reclone: Op = if inc { K::ArcIncStrong { h: 0, to: nh }.into() } else { K::ArcClone { from: 0, to: nh }.into() };
            let tails: Vec<(&str, Vec<Op>)> = vec![
                ("new-first", vec![K::ArcDrop { h: nh }.into(), K::ArcDrop { h: 0 }.into()]),
                ("old-first", vec![K::ArcDrop { h: 0 }.into(), K::ArcDrop { h: nh }.into()]),
                ("get_mut", vec![K::ArcDrop { h: nh }.into(), K::ArcGetMut { h: 0 }.into(), K::ArcDrop { h: 0 }.into()]),
                ("try_unwrap", vec![K::ArcDrop { h: nh }.into(), K::ArcTryUnwrap { h: 0 }.into()]),
                ("dec", vec![K::ArcDecStrong { h: nh }.into(), K::ArcDrop { h: 0 }.into()]),
            ];
            for (tn, tail) in tails {
                let mut mid = awaits.clone();
                mid.push(reclone.clone());
                mid.extend(tail);
                let objs = Objs { atomics: vec![0; nremote + 1], handles: nh + 1, arcs: vec![Some(0)], cells: 1, ..Default::default() };
                out.push(with_main(&format!("ARC-reclone-{}-{}-{}", nremote, if inc { "inc" } else { "clone" }, tn), objs, pre.clone(), remote.clone(), mid, vec![]));
            }
            // the new handle goes to a third thread, which waits for a relaxed flag before dropping it
            for main_first in [false, true] {
                let mut ch = remote.clone();
                ch.push(vec![K::Await { a: nremote, mo: Rlx, want: 1 }.into(), K::ArcDrop { h: nh }.into()]);
                let mut mid = awaits.clone();
                mid.push(reclone.clone());
                if main_first {
                    mid.push(K::ArcDrop { h: 0 }.into());
                    mid.push(st(nremote, 1, Rlx));
                } else {
                    mid.push(st(nremote, 1, Rlx));
                    mid.push(K::ArcDrop { h: 0 }.into());
                }
                let objs = Objs { atomics: vec![0; nremote + 1], handles: nh + 1, arcs: vec![Some(0)], cells: 1, ..Default::default() };
                out.push(with_main(&format!("ARC-reclone-{}-{}-third-{}", nremote, if inc { "inc" } else { "clone" }, main_first), objs, pre.clone(), ch, mid, vec![]));
            }
        }
    }
    out
}

/// CELL-open: accesses that stay open across other operations (`UnsafeCell::get` / `get_mut`
/// guards). Two threads: T1 opens an access and closes it before / after publishing a SeqCst flag
/// or inside / outliving a mutex section; T2 accesses the cell directly, after awaiting the flag,
/// or inside the mutex. Expected verdicts: nothing, a race (unordered), or an overlap (ordered
/// after the opening but before the close).
pub fn cell_open_family() -> Vec<Program> {
    let mut out = vec![];
    let b = |w: bool| Op::from(K::CellBegin { c: 0, w });
    let e = |w: bool| Op::from(K::CellEnd { c: 0, w });
    // the flag is a channel message (an edge the SC machine tracks); `y` is a scheduling point
    // between the publication / unlock and the close
    let s = || Op::from(K::Send { ch: 0, v: 1 });
    let aw = || Op::from(K::Recv { ch: 0 });
    let y = || Op::from(K::Yield);
    let l = || Op::from(K::Lock { m: 0 });
    let u = || Op::from(K::Unlock { m: 0 });
    let objs = Objs { cells: 1, mutexes: 1, chans: 1, ..Default::default() };
    for w1 in [false, true] {
        // (body, publishes the flag, uses the mutex)
        let t1s: Vec<(Vec<Op>, bool, bool)> = vec![
            (vec![b(w1), e(w1)], false, false),
            (vec![b(w1), y(), e(w1)], false, false),
            (vec![b(w1), s(), e(w1)], true, false),
            (vec![b(w1), s(), y(), e(w1)], true, false),
            (vec![b(w1), e(w1), s()], true, false),
            (vec![l(), b(w1), e(w1), u()], false, true),
            (vec![l(), b(w1), u(), e(w1)], false, true),
            (vec![l(), b(w1), u(), y(), e(w1)], false, true),
        ];
        for (t1, publishes, locks) in &t1s {
            let accs: Vec<Vec<Op>> = vec![vec![rd(0)], vec![wr(0)], vec![b(false), e(false)], vec![b(true), e(true)], vec![b(false), y(), e(false)], vec![b(true), y(), e(true)]];
            for acc in &accs {
                let mut t2s: Vec<Vec<Op>> = vec![];
                if *publishes {
                    t2s.push(std::iter::once(aw()).chain(acc.iter().cloned()).collect());
                } else if *locks {
                    t2s.push(std::iter::once(l()).chain(acc.iter().cloned()).chain(std::iter::once(u())).collect());
                } else {
                    t2s.push(acc.clone());
                }
                for t2 in t2s {
                    out.push(with_main("CELL-open", objs.clone(), vec![], vec![t1.clone(), t2.clone()], vec![], vec![]));
                    // main as the second party
                    out.push(with_main("CELL-open-main", objs.clone(), vec![], vec![t1.clone()], t2, vec![]));
                }
            }
        }
    }
    out
}

/// CELL-nested: a thread accesses a cell while its *own* earlier access is still open (misuse
/// that loom reports): in main, in a spawned thread while main is blocked in join, and depending
/// on a flag a third thread sets (so the failure comes in a later iteration).
pub fn cell_nested_family() -> Vec<Program> {
    let mut out = vec![];
    let objs = Objs { atomics: vec![0], cells: 1, ..Default::default() };
    for w1 in [false, true] {
        let inners: Vec<Vec<Op>> = vec![
            vec![rd(0)],
            vec![wr(0)],
            vec![K::CellBegin { c: 0, w: false }.into(), K::CellEnd { c: 0, w: false }.into()],
            vec![K::CellBegin { c: 0, w: true }.into(), K::CellEnd { c: 0, w: true }.into()],
        ];
        for inner in &inners {
            let body: Vec<Op> = std::iter::once(Op::from(K::CellBegin { c: 0, w: w1 })).chain(inner.iter().cloned()).chain(std::iter::once(Op::from(K::CellEnd { c: 0, w: w1 }))).collect();
            out.push(with_main("CELL-nested-main", objs.clone(), body.clone(), vec![vec![ld(0, Sc)]], vec![], vec![]));
            out.push(with_main("CELL-nested-child", objs.clone(), vec![], vec![body.clone()], vec![], vec![]));
            // only when the flag was seen: `ld f; begin; inner.when(f == 1); end`
            let mut g: Vec<Op> = vec![ld(0, Sc), K::CellBegin { c: 0, w: w1 }.into()];
            for op in inner {
                g.push(op.k.clone().when(0, Res::V(1)));
            }
            g.push(K::CellEnd { c: 0, w: w1 }.into());
            out.push(with_main("CELL-nested-flag", objs.clone(), vec![], vec![g, vec![st(0, 1, Sc)]], vec![], vec![]));
        }
    }
    out
}

/// LIT-fence-multi: an acquire fence after *several* relaxed loads must acquire every release
/// store those loads read. Two writers publish a payload each (release store, or release fence +
/// relaxed store) on the same flag or on two flags; the reader loads the flag(s) twice with
/// relaxed / acquire loads, fences (Acquire / AcqRel / SeqCst / nothing) after or between the
/// loads and then reads both payloads.
pub fn lit_fence_multi(full: bool) -> Vec<Program> {
    let mut out = vec![];
    let mut seen = HashSet::new();
    // locations: 0 = payload 1, 1 = payload 2, 2 = flag (3 = second flag)
    for two_flags in [false, true] {
        let (f1, f2) = (2, if two_flags { 3 } else { 2 });
        let nat = if two_flags { 4 } else { 3 };
        for wkind in 0..2 {
            let w = |p: usize, f: usize, v: u64| -> Vec<Op> {
                if wkind == 0 {
                    vec![st(p, 1, Rlx), st(f, v, Rel)]
                } else {
                    vec![st(p, 1, Rlx), fence(Rel), st(f, v, Rlx)]
                }
            };
            let fences: Vec<Option<MO>> = if full { vec![Some(Acq), Some(AcqRel), Some(Sc), None] } else { vec![Some(Acq), Some(Sc), None] };
            for fk in &fences {
                for between in [false, true] {
                    if fk.is_none() && between {
                        continue;
                    }
                    let lmos: Vec<(MO, MO)> = if full { vec![(Rlx, Rlx), (Acq, Rlx), (Rlx, Acq)] } else { vec![(Rlx, Rlx), (Acq, Rlx)] };
                    for (m1, m2) in lmos {
                        let mut r: Vec<Op> = vec![ld(f1, m1)];
                        if between {
                            r.push(fence(fk.unwrap()));
                        }
                        r.push(ld(f2, m2));
                        if !between {
                            if let Some(k) = fk {
                                r.push(fence(*k));
                            }
                        }
                        r.push(ld(0, Rlx));
                        r.push(ld(1, Rlx));
                        // two writers / one writer doing both publications
                        let two = vec![w(0, f1, 1), w(1, f2, 2), r.clone()];
                        let one = vec![w(0, f1, 1).into_iter().chain(w(1, f2, 2)).collect(), r.clone()];
                        for ch in [two, one] {
                            let p = with_main("LIT-fence-multi", atomics(nat), vec![], ch, vec![], vec![]);
                            if seen.insert(p.text()) {
                                out.push(p);
                            }
                        }
                    }
                }
            }
        }
    }
    out
}

/// SPIN-obs: what the spinner can observe *around* its loop. The setter stores x = 1, raises the
/// flag, stores x = 2; the spinner reads x, spins on the flag (the result says whether it had to
/// spin) and reads x again. After a yield the spinner must be able to resume at every later
/// scheduling point of the setter, e.g. exit the loop before x = 2.
pub fn spin_obs_family(full: bool) -> Vec<Program> {
    let mut out = vec![];
    // all SeqCst: loom's SeqCst accesses of one location read the newest SeqCst store, so the
    // second read of x tells exactly whether the loop was left before `x = 2` ran (with weaker
    // orderings a stale read gives the same value and hides a scheduling restriction)
    let mut variants: Vec<(MO, MO, MO, MO, bool)> = vec![(Sc, Sc, Sc, Sc, false), (Sc, Sc, Sc, Sc, true)];
    // (x stores, flag store, flag load, x loads, rmw probe)
    variants.push((Rlx, Rel, Acq, Rlx, false));
    // all relaxed: the old value of x may still be read after the loop (known finding D24 when
    // the spinner had already read it before the loop)
    variants.push((Rlx, Rlx, Rlx, Rlx, false));
    if full {
        variants.push((Rlx, Sc, Sc, Rlx, false));
        variants.push((Rel, Rel, Acq, Acq, false));
    }
    for (xs, fs, fl, xl, rmw) in variants {
        let setter = vec![st(1, 1, xs), st(0, 1, fs), st(1, 2, xs)];
        let spinner: Vec<Op> = vec![ld(1, xl), K::AwaitSpun { a: 0, mo: fl, want: 1 }.into(), if rmw { fadd(1, 0, xl) } else { ld(1, xl) }];
        out.push(with_main("SPIN-obs", atomics(2), vec![], vec![setter.clone(), spinner.clone()], vec![], vec![ld(1, xl)]));
        out.push(with_main("SPIN-obs-main", atomics(2), vec![], vec![setter.clone()], spinner, vec![]));
    }
    // plain message passing through the loop, nothing read before it: "spun, data still old" is
    // allowed when nothing synchronises
    for (ds, fs, fl) in [(Rlx, Rlx, Rlx), (Rlx, Rel, Rlx), (Rlx, Rlx, Acq), (Rlx, Rel, Acq)] {
        let setter = vec![st(1, 7, ds), st(0, 1, fs)];
        let spinner: Vec<Op> = vec![K::AwaitSpun { a: 0, mo: fl, want: 1 }.into(), ld(1, Rlx)];
        out.push(with_main("SPIN-mp", atomics(2), vec![], vec![setter.clone(), spinner.clone()], vec![], vec![]));
        out.push(with_main("SPIN-mp-main", atomics(2), vec![], vec![setter], spinner, vec![]));
    }
    // two loads per loop iteration: `while !(a == 1 && b == 1) { yield }`
    for (so, lo) in [(Rlx, Rlx), (Rel, Acq)] {
        let writers: Vec<Vec<Vec<Op>>> = vec![vec![vec![st(0, 1, so), st(1, 1, so)]], vec![vec![st(1, 1, so), st(0, 1, so)]], vec![vec![st(0, 1, so)], vec![st(1, 1, so)]]];
        for w in writers {
            let spin: Vec<Op> = vec![K::Await2 { a: 0, b: 1, mo: lo, wa: 1, wb: 1 }.into()];
            let mut ch = w.clone();
            ch.push(spin.clone());
            out.push(with_main("SPIN-two-flags", atomics(2), vec![], ch, vec![], vec![]));
            out.push(with_main("SPIN-two-flags-main", atomics(2), vec![], w, spin, vec![]));
        }
    }
    let ld_os: &[MO] = if full { &[Sc, Acq, Rlx] } else { &[Sc] };
    // two setters: the flag is raised by one thread, the data written by another
    for &la in ld_os {
        let (so, fo) = if la == Sc { (Sc, Sc) } else { (Rlx, Rel) };
        let spinner: Vec<Op> = vec![ld(1, la), K::AwaitSpun { a: 0, mo: la, want: 1 }.into(), ld(1, la)];
        out.push(with_main("SPIN-obs-2w", atomics(2), vec![], vec![vec![st(0, 1, fo)], vec![st(1, 1, so), st(1, 2, so)], spinner], vec![], vec![]));
    }
    out
}

/// CHAN2: two channels, request / response. T1 sends on A and receives on B, T2 receives on A
/// and sends on B; every pair of op sequences up to `maxlen` each (many of them deadlock, which
/// must be reported exactly). State of one channel must not leak into the other.
pub fn chan2_family(maxlen: usize, main_is_t1: bool) -> Vec<Program> {
    let a1: Vec<Op> = vec![K::Send { ch: 0, v: 1 }.into(), K::Recv { ch: 1 }.into(), K::TryRecv { ch: 1 }.into()];
    let a2: Vec<Op> = vec![K::Recv { ch: 0 }.into(), K::TryRecv { ch: 0 }.into(), K::Send { ch: 1, v: 1 }.into()];
    let number = |mut ops: Vec<Op>, base: u64| -> Vec<Op> {
        let mut n = base;
        for op in ops.iter_mut() {
            if let K::Send { v, .. } = &mut op.k {
                n += 1;
                *v = n;
            }
        }
        ops
    };
    let p1: Vec<Vec<Op>> = seqs(&a1, maxlen).into_iter().map(|s| number(s, 10)).collect();
    let p2: Vec<Vec<Op>> = seqs(&a2, maxlen).into_iter().map(|s| number(s, 20)).collect();
    let objs = Objs { chans: 2, ..Default::default() };
    let mut out = vec![];
    for t1 in &p1 {
        // something must cross in both directions, otherwise one channel is unused
        if !t1.iter().any(|o| matches!(o.k, K::Send { .. })) {
            continue;
        }
        for t2 in &p2 {
            if !t2.iter().any(|o| matches!(o.k, K::Send { .. })) || !t2.iter().any(|o| matches!(o.k, K::Recv { .. } | K::TryRecv { .. })) {
                continue;
            }
            if main_is_t1 {
                out.push(with_main("CHAN2-main", objs.clone(), vec![], vec![t2.clone()], t1.clone(), vec![]));
            } else {
                out.push(with_main("CHAN2", objs.clone(), vec![], vec![t1.clone(), t2.clone()], vec![], vec![]));
            }
        }
    }
    out
}


/// Put an independent racing prelude in front of a program: main spawns two extra threads that
/// each `fetch_add` a fresh atomic, joins them, marks the position, and then runs the original
/// program. Whatever the prelude's order, the rest starts from the same state.
pub fn with_prelude(p: &Program) -> Program {
    let mut q = p.clone();
    let na = q.objs.atomics.len();
    q.objs.atomics.push(0);
    let n = q.threads.len();
    q.threads.push(vec![fadd(na, 1, Sc)]);
    q.threads.push(vec![fadd(na, 1, Sc)]);
    let mut main: Vec<Op> = vec![K::Spawn { t: n }.into(), K::Spawn { t: n + 1 }.into(), K::Join { t: n }.into(), K::Join { t: n + 1 }.into(), K::Mark.into()];
    let shift = main.len();
    for op in &q.threads[0] {
        let mut op = op.clone();
        if let Some(g) = op.g.as_mut() {
            g.idx += shift;
        }
        main.push(op);
    }
    q.threads[0] = main;
    q.name = format!("{}+prelude", p.name);
    q
}

/// Programs for the prelude-invariance oracle of C16 (at most two children: the prelude needs
/// two of loom's thread slots): yields while every other thread is blocked, spin loops, wait
/// loops, locks, channels.
pub fn prelude_bases(tier: &str) -> Vec<Program> {
    yield_bases(tier).into_iter().map(|p| with_prelude(&p)).collect()
}

/// The same programs without the prelude (yields while the other thread is blocked, spin and
/// wait loops, hand-overs after a yield): also used by C15, where a switch away from a thread
/// that yielded earlier but is running again must still count as a pre-emption.
pub fn yield_bases(tier: &str) -> Vec<Program> {
    let mut v: Vec<Program> = vec![];
    let o = Objs { atomics: vec![0, 0], mutexes: 1, notifies: 1, condvars: 1, chans: 1, ..Default::default() };
    let lk = || Op::from(K::Lock { m: 0 });
    let ul = || Op::from(K::Unlock { m: 0 });
    // main holds the lock, yields while the child is blocked on it, releases, goes on
    v.push(with_main("PRE-yield-blocked", o.clone(), vec![lk()], vec![vec![lk(), fadd(0, 1, Sc), ul()]], vec![K::Yield.into(), ul(), fadd(0, 1, Sc)], vec![]));
    v.push(with_main("PRE-yield-blocked2", o.clone(), vec![lk()], vec![vec![lk(), fadd(0, 1, Sc), ul()], vec![fadd(1, 1, Sc)]], vec![K::Yield.into(), ul(), fadd(0, 1, Sc), fadd(1, 1, Sc)], vec![]));
    // two yields: at the second one nobody else can run, so the yielding thread is picked again
    // itself; it must still give way once the child becomes runnable
    for ny in 2..=3 {
        let mut mid: Vec<Op> = (0..ny).map(|_| Op::from(K::Yield)).collect();
        mid.extend(vec![ul(), fadd(1, 1, Sc), fadd(0, 1, Sc)]);
        v.push(with_main("PRE-yield-again", o.clone(), vec![lk()], vec![vec![lk(), fadd(0, 1, Sc), ul()]], mid, vec![]));
    }
    v.push(with_main("PRE-yield-again-n", o.clone(), vec![], vec![vec![K::NWait { n: 0 }.into(), fadd(0, 1, Sc)]], vec![K::Yield.into(), K::Yield.into(), K::NNotify { n: 0 }.into(), fadd(1, 1, Sc), fadd(0, 1, Sc)], vec![]));
    // the child yields while main is blocked in join
    v.push(with_main("PRE-yield-join", o.clone(), vec![], vec![vec![K::Yield.into(), fadd(0, 1, Sc), K::Yield.into(), fadd(0, 1, Sc)]], vec![], vec![]));
    // spin loop, wait loops
    v.push(with_main("PRE-spin", o.clone(), vec![], vec![vec![st(1, 1, Rlx), st(0, 1, Rel)]], vec![K::Await { a: 0, mo: Acq, want: 1 }.into(), ld(1, Rlx)], vec![]));
    v.push(with_main("PRE-spin2", o.clone(), vec![], vec![vec![st(0, 1, Rel)], vec![K::Await { a: 0, mo: Acq, want: 1 }.into(), st(1, 1, Rel)]], vec![K::Await { a: 1, mo: Acq, want: 1 }.into()], vec![]));
    v.push(with_main("PRE-nloop", o.clone(), vec![], vec![vec![st(0, 1, Rlx), K::NNotify { n: 0 }.into()]], vec![K::NWaitUntil { n: 0, a: 0, mo: Rlx, want: 1 }.into()], vec![]));
    v.push(with_main("PRE-park", o.clone(), vec![], vec![vec![st(0, 1, Rlx), K::Unpark { t: 0 }.into()]], vec![K::ParkUntil { a: 0, mo: Rlx, want: 1 }.into()], vec![]));
    v.push(with_main("PRE-cv", o.clone(), vec![], vec![vec![lk(), st(0, 1, Rlx), K::NotifyOne { cv: 0 }.into(), ul()]], vec![lk(), K::CvWaitUntil { cv: 0, m: 0, a: 0, mo: Rlx, want: 1 }.into(), ul()], vec![]));
    v.push(with_main("PRE-chan", o.clone(), vec![], vec![vec![K::Send { ch: 0, v: 1 }.into()], vec![K::Send { ch: 0, v: 2 }.into()]], vec![K::Recv { ch: 0 }.into(), K::TryRecv { ch: 0 }.into()], vec![]));
    let n = if tier == "quick" { 6 } else { 40 };
    let pick = |x: Vec<Program>, n: usize| -> Vec<Program> {
        let step = (x.len() / n).max(1);
        x.into_iter().step_by(step).take(n).collect()
    };
    v.extend(pick(lock_family(1, 0, 2, 3, 6, true, true), n));
    v.extend(pick(spin_lock_family(tier).into_iter().filter(|p| p.threads.len() <= 3).collect(), n));
    v.extend(pick(a_sc(1, 2, 2, 4, false), n));
    v.extend(pick(wait_loop_family(false).into_iter().filter(|p| p.threads.len() <= 3).collect(), n));
    // a thread that yields, then spawns a thread late and goes on
    let o1 = Objs { atomics: vec![0, 0], ..Default::default() };
    v.push(Program { name: "PRE-yield-late-spawn".into(), objs: o1.clone(), threads: vec![vec![K::Spawn { t: 1 }.into(), K::Yield.into(), K::Spawn { t: 2 }.into(), fadd(0, 1, Sc), fadd(0, 1, Sc), K::Join { t: 1 }.into(), K::Join { t: 2 }.into()], vec![fadd(1, 1, Sc)], vec![fadd(0, 1, Sc)]] });
    v
}

/// RACE-guarded: a conflicting access that only happens once a *relaxed* flag shows that a
/// later publication was already issued - so the interleaving in which the access simply comes
/// first (and the race is obvious) does not exist, and a primitive that acquires too much hides
/// the race. Channels: the late sender writes the cell, sends and raises the flag; the receiver
/// reads the flag, takes fewer messages than were sent and reads the cell if the flag was up: it
/// may have received only the other senders' messages.
pub fn race_guarded_family() -> Vec<Program> {
    let mut out = vec![];
    for k in 2..=3usize {
        for r in 1..k {
            for recv_is_main in [true, false] {
                let objs = Objs { atomics: vec![0], cells: 1, chans: 1, ..Default::default() };
                let mut senders: Vec<Vec<Op>> = (1..k).map(|i| vec![K::Send { ch: 0, v: i as u64 }.into()]).collect();
                senders.push(vec![wr(0), K::Send { ch: 0, v: 9 }.into(), st(0, 1, Rlx)]);
                let mut rx: Vec<Op> = vec![ld(0, Rlx)];
                for _ in 0..r {
                    rx.push(K::Recv { ch: 0 }.into());
                }
                // index of the flag load inside the receiving thread (main starts with k spawns)
                let at = if recv_is_main { k } else { 0 };
                rx.push(K::CellRead { c: 0 }.when(at, Res::V(1)));
                // drain the rest so that nothing leaks
                for _ in r..k {
                    rx.push(K::Recv { ch: 0 }.into());
                }
                if recv_is_main {
                    out.push(with_main("RACE-guarded-chan", objs, vec![], senders, rx, vec![]));
                } else if k == 2 {
                    let mut ch = senders.clone();
                    ch.push(rx);
                    out.push(with_main("RACE-guarded-chan-child", objs, vec![], ch, vec![], vec![]));
                }
            }
        }
    }
    out
}

/// LIT-mp-pub: message passing with every kind of publishing / subscribing operation. The
/// writer stores the data, optionally fences, and publishes the flag with a store, swap,
/// fetch_add or successful compare_exchange; the reader reads the flag with a load, a
/// fetch_add(0) or a failing compare_exchange, optionally fences, and reads the data. `full`:
/// every ordering and fence kind; otherwise relaxed / release / acquire only.
pub fn lit_mp_pub(full: bool) -> Vec<Program> {
    let mut out = vec![];
    let mut seen = HashSet::new();
    let pub_mos: &[MO] = if full { &[Rlx, Rel, AcqRel, Sc] } else { &[Rlx, Rel] };
    let pub_fences: Vec<Option<MO>> = if full { vec![None, Some(Rel), Some(AcqRel), Some(Sc)] } else { vec![None, Some(Rel)] };
    let sub_fences: Vec<Option<MO>> = if full { vec![None, Some(Acq), Some(AcqRel), Some(Sc)] } else { vec![None, Some(Acq)] };
    for &pm in pub_mos {
        for pk in 0..4 {
            // a plain store cannot be AcqRel
            if pk == 0 && pm == AcqRel {
                continue;
            }
            let publ: Op = match pk {
                0 => st(1, 1, pm),
                1 => swap(1, 1, pm),
                2 => fadd(1, 1, pm),
                _ => cas(1, 0, 1, pm, Rlx),
            };
            for pf in &pub_fences {
                let mut w: Vec<Op> = vec![st(0, 1, Rlx)];
                if let Some(f) = pf {
                    w.push(fence(*f));
                }
                w.push(publ.clone());
                let sub_ops: Vec<Op> = if full {
                    vec![ld(1, Rlx), ld(1, Acq), ld(1, Sc), fadd(1, 0, Rlx), fadd(1, 0, Acq), fadd(1, 0, AcqRel), cas(1, 7, 9, Rlx, Rlx), cas(1, 7, 9, Acq, Acq)]
                } else {
                    vec![ld(1, Rlx), ld(1, Acq), fadd(1, 0, Rlx), fadd(1, 0, Acq), cas(1, 7, 9, Acq, Acq)]
                };
                for so in &sub_ops {
                    for sf in &sub_fences {
                        let mut r: Vec<Op> = vec![so.clone()];
                        if let Some(f) = sf {
                            r.push(fence(*f));
                        }
                        r.push(ld(0, Rlx));
                        let p = with_main("LIT-mp-pub", atomics(2), vec![], vec![w.clone(), r], vec![], vec![]);
                        if seen.insert(p.text()) {
                            out.push(p);
                        }
                    }
                }
            }
        }
    }
    out
}

/// DL-enabler: a deadlock that is only reached if a *third* thread's independent operation is
/// scheduled early. W waits for E (message, notification or unpark), then looks at a flag that
/// main sets and blocks forever if it is still down; E only provides what W waits for. The
/// stuck execution needs E to run, and W to wake up, before main's store - although W is not
/// runnable when main's store is first executed.
pub fn dl_enabler_family() -> Vec<Program> {
    let mut out = vec![];
    let objs = Objs { atomics: vec![0], mutexes: 1, notifies: 1, chans: 2, ..Default::default() };
    for x in 0..3 {
        let (wait, provide): (K, K) = match x {
            0 => (K::Recv { ch: 0 }, K::Send { ch: 0, v: 1 }),
            1 => (K::NWait { n: 0 }, K::NNotify { n: 0 }),
            _ => (K::Park, K::Unpark { t: 1 }),
        };
        for obs in 0..2 {
            // W's observation and main's set
            let (observe, at, set): (Vec<Op>, usize, Vec<Op>) = if obs == 0 {
                // an RMW as the probe: it reads the newest store, so the SC machine's view is exact
                // (a SeqCst *load* may still return the initial value, as loom documents)
                (vec![fadd(0, 0, Sc)], 1, vec![swap(0, 1, Sc)])
            } else {
                (vec![K::Lock { m: 0 }.into(), ld(0, Rlx), K::Unlock { m: 0 }.into()], 2, vec![K::Lock { m: 0 }.into(), st(0, 1, Rlx), K::Unlock { m: 0 }.into()])
            };
            for stuck in 0..2 {
                // how W blocks forever: a receive nobody serves, or a park nobody ends
                let forever: K = if stuck == 0 { K::Recv { ch: 1 } } else { K::Park };
                if x == 2 && stuck == 1 {
                    continue; // a second unpark-free park after a consumed token: same as stuck == 1 elsewhere
                }
                let mut w: Vec<Op> = vec![wait.clone().into()];
                w.extend(observe.iter().cloned());
                w.push(forever.when(at, Res::V(0)));
                let e: Vec<Op> = vec![provide.clone().into()];
                out.push(with_main("DL-enabler", objs.clone(), vec![], vec![w.clone(), e.clone()], set.clone(), vec![]));
                // the enabler as main, the setter as a child
                if x != 2 {
                    out.push(with_main("DL-enabler-main", objs.clone(), vec![], vec![w, set.clone()], e, vec![]));
                }
            }
        }
    }
    out
}

/// RACE-bare-notify: a notifier that does not take the mutex writes a cell and notifies; main
/// joins it, raises the flag under the mutex and notifies again (so the waiter is woken in
/// every execution); the waiter reads the cell after its wait. Whichever notification ends the
/// wait - also one that lands between the waiter's enqueueing and its blocking - the bare
/// notifier's write happens-before the read.
pub fn race_bare_notify_family() -> Vec<Program> {
    let mut out = vec![];
    let objs = Objs { atomics: vec![0], cells: 1, mutexes: 1, condvars: 1, ..Default::default() };
    for all in [false, true] {
        let bare: Vec<Op> = vec![wr(0), if all { K::NotifyAll { cv: 0 }.into() } else { K::NotifyOne { cv: 0 }.into() }];
        for guarded in [false, true] {
            let mut w: Vec<Op> = vec![K::Lock { m: 0 }.into(), ld(0, Rlx), K::Wait { cv: 0, m: 0 }.when(1, Res::V(0))];
            w.push(if guarded { K::CellRead { c: 0 }.when(1, Res::V(0)) } else { rd(0) });
            w.push(K::Unlock { m: 0 }.into());
            for main_all in [false, true] {
                let main: Vec<Op> = vec![
                    K::Spawn { t: 1 }.into(),
                    K::Spawn { t: 2 }.into(),
                    K::Join { t: 2 }.into(),
                    K::Lock { m: 0 }.into(),
                    st(0, 1, Rlx),
                    K::Unlock { m: 0 }.into(),
                    if main_all { K::NotifyAll { cv: 0 }.into() } else { K::NotifyOne { cv: 0 }.into() },
                    K::Join { t: 1 }.into(),
                ];
                out.push(Program { name: "RACE-bare-notify".into(), objs: objs.clone(), threads: vec![main, w.clone(), bare.clone()] });
            }
        }
    }
    out
}

/// LIT-cas-coh: a failing compare_exchange is a read. One or two writers store to x; a thread
/// runs a compare_exchange that cannot succeed (expected value never stored) before / after a
/// load or a store of x; optionally a third thread reads x twice. Per-location coherence must
/// hold across the failed CAS exactly as across a load.
pub fn lit_cas_coh(full: bool) -> Vec<Program> {
    let mut out = vec![];
    let mut seen = HashSet::new();
    let cas_os: Vec<(MO, MO)> = if full { vec![(Rlx, Rlx), (AcqRel, Acq), (Sc, Sc), (Rel, Rlx), (Acq, Acq)] } else { vec![(Rlx, Rlx), (AcqRel, Acq)] };
    let st_os: &[MO] = if full { &[Rlx, Rel, Sc] } else { &[Rlx] };
    for &(cs, cf) in &cas_os {
        for &so in st_os {
            let writers: Vec<Vec<Vec<Op>>> = vec![vec![vec![st(0, 0, so)]], vec![vec![st(0, 0, so), st(0, 0, so)]], vec![vec![st(0, 0, so)], vec![st(0, 0, so)]]];
            let c = || cas(0, 77, 0, cs, cf);
            let readers: Vec<Vec<Op>> = vec![
                vec![c(), ld(0, Rlx)],
                vec![ld(0, Rlx), c()],
                vec![c(), c()],
                vec![c(), st(0, 0, Rlx)],
                vec![c(), fadd(0, 1, Rlx)],
                vec![c(), ld(0, Rlx), ld(0, Rlx)],
            ];
            for w in &writers {
                for r in &readers {
                    for third in [false, true] {
                        let mut ch = w.clone();
                        ch.push(r.clone());
                        if third {
                            if ch.len() >= 3 {
                                continue;
                            }
                            ch.push(vec![ld(0, Rlx), ld(0, Rlx)]);
                        }
                        let ch = canon_atomic_children(ch, 1);
                        let p = finish_atomic_program("LIT-cas-coh", ch, Rlx);
                        if seen.insert(p.text()) {
                            out.push(p);
                        }
                    }
                }
            }
        }
    }
    out
}

/// LIT-stale-acq: an acquire load that returns an *older* store does not synchronise with the
/// newer one. The writer stores the data, publishes on x (release store / RMW / successful
/// CAS) and raises a relaxed flag z; the reader sees z, then reads x with acquire (or relaxed +
/// acquire fence) and the data: "x still old, data still old" is allowed although the
/// publication has certainly been executed.
pub fn lit_stale_acq(full: bool) -> Vec<Program> {
    let mut out = vec![];
    let pubs: Vec<Op> = if full {
        vec![st(1, 1, Rel), st(1, 1, Sc), fadd(1, 1, Rel), fadd(1, 1, AcqRel), fadd(1, 1, Sc), swap(1, 1, Rel), cas(1, 0, 1, Rel, Rlx), cas(1, 0, 1, AcqRel, Acq)]
    } else {
        vec![st(1, 1, Rel), fadd(1, 1, Rel), swap(1, 1, AcqRel), cas(1, 0, 1, Rel, Rlx)]
    };
    for p in &pubs {
        for pf in [false, true] {
            // optionally a release fence in front of a relaxed form of the publication
            let mut w: Vec<Op> = vec![st(0, 1, Rlx)];
            if pf {
                w.push(fence(Rel));
            }
            w.push(p.clone());
            w.push(st(2, 1, Rlx));
            for sub in 0..3 {
                let mut r: Vec<Op> = vec![ld(2, Rlx)];
                match sub {
                    0 => r.push(ld(1, Acq)),
                    1 => {
                        r.push(ld(1, Rlx));
                        r.push(fence(Acq));
                    }
                    _ => r.push(ld(1, Sc)),
                }
                r.push(ld(0, Rlx));
                out.push(with_main("LIT-stale-acq", atomics(3), vec![], vec![w.clone(), r], vec![], vec![]));
            }
        }
    }
    out
}

/// RACE-arc: only the *final* drop of an Arc acquires. T1 accesses a cell and drops its handle;
/// T2, gated by a relaxed flag that T1 raises after its drop, drops its own handle and then
/// accesses the cell. If another handle is still alive (main keeps one) T2's drop is not the
/// final one and the two accesses race; if T2's drop is the final one they are ordered.
pub fn race_arc_family() -> Vec<Program> {
    let mut out = vec![];
    for main_keeps in [true, false] {
        for extra in [false, true] {
            // `extra`: a fourth handle dropped early by T1 as well (count 4 -> ... )
            for (a1, a2) in [(wr(0), rd(0)), (rd(0), wr(0)), (wr(0), wr(0))] {
                let objs = Objs { atomics: vec![0], cells: 1, handles: 8, arcs: vec![None], ..Default::default() };
                let mut pre: Vec<Op> = vec![K::ArcNew { h: 0, arc: 0 }.into(), K::ArcClone { from: 0, to: 2 }.into(), K::ArcClone { from: 0, to: 4 }.into()];
                if extra {
                    pre.push(K::ArcClone { from: 0, to: 6 }.into());
                }
                if !main_keeps {
                    pre.push(K::ArcDrop { h: 0 }.into());
                }
                let mut t1: Vec<Op> = vec![a1.clone()];
                if extra {
                    t1.push(K::ArcDrop { h: 6 }.into());
                }
                t1.push(K::ArcDrop { h: 2 }.into());
                t1.push(st(0, 1, Rlx));
                let t2: Vec<Op> = vec![K::Await { a: 0, mo: Rlx, want: 1 }.into(), K::ArcDrop { h: 4 }.into(), a2.clone()];
                let tail: Vec<Op> = if main_keeps { vec![K::ArcDrop { h: 0 }.into()] } else { vec![] };
                out.push(with_main("RACE-arc", objs, pre, vec![t1, t2], vec![], tail));
            }
        }
    }
    out
}

/// YINS: `thread::yield_now` inserted at every position of every spawned thread of small A-sc and
/// LOCK programs (one yield; and one yield in each of two threads). A yield forces one switch and
/// nothing else, so bounded and unbounded runs must still agree as C15 says.
pub fn yield_ins_family(tier: &str) -> Vec<Program> {
    op_ins_family(if tier == "quick" { 1 } else { 6 }, "YINS", true)
}

/// Metamorphic families: an operation that must not change what the other operations can return
/// is inserted at every position of every spawned thread (and at every pair of positions of two
/// threads) of small A-sc and LOCK programs. YINS: `yield_now`; FINS: a SeqCst fence (all other
/// operations are SeqCst already); LINS: a relaxed load of an atomic nobody writes; MINS: a
/// lock/unlock pair of a mutex nobody else uses. The extra operations add scheduling points and
/// DPOR bookkeeping, nothing else.
pub fn op_ins_family(n: usize, kind: &str, pairs: bool) -> Vec<Program> {
    let pick = |x: Vec<Program>, n: usize| -> Vec<Program> {
        let step = (x.len() / (n + 1)).max(1);
        x.into_iter().skip(step).step_by(step).take(n).collect()
    };
    let mut bases = vec![];
    bases.extend(pick(a_sc(1, 2, 2, 4, false), n));
    bases.extend(pick(a_sc(1, 3, 1, 3, false), n));
    bases.extend(pick(a_sc(2, 2, 2, 4, true), n));
    bases.extend(pick(lock_family(1, 0, 2, 3, 6, true, true), n));
    if kind != "YINS" {
        bases.extend(pick(wait_family(2, 1, 1, 12, true, true, true), 2 * n));
        bases.extend(pick(chan_family(2, 2, 3, true), n));
    }
    if kind.starts_with("LIT-") {
        // weak-memory bases (C02 / C03: compared with RC11 directly)
        bases.clear();
        // without read-modify-writes: those only multiply the known findings D12/D15
        let plain = |x: Vec<Program>| -> Vec<Program> { x.into_iter().filter(|p| !p.threads.iter().flatten().any(|o| matches!(o.k, K::Swap { .. } | K::FetchAdd { .. } | K::Cas { .. }))).collect() };
        bases.extend(pick(plain(lit_sentinels()), 6 * n));
        bases.extend(pick(plain(lit(2, 2, 2, 4, false, false)), 4 * n));
    }
    let kind = kind.trim_start_matches("LIT-");
    let mut out = vec![];
    for b in &bases {
        let mut b = b.clone();
        let ops: Vec<Op> = match kind {
            "YINS" => vec![K::Yield.into()],
            "FINS" => vec![K::Fence { mo: Sc }.into()],
            "LINS" => {
                b.objs.atomics.push(7);
                vec![ld(b.objs.atomics.len() - 1, Rlx)]
            }
            _ => {
                b.objs.mutexes += 1;
                vec![K::Unlock { m: b.objs.mutexes - 1 }.into(), K::Lock { m: b.objs.mutexes - 1 }.into()]
            }
        };
        let ins = |p: &Program, t: usize, pos: usize| -> Program {
            let mut q = p.clone();
            for o in &ops {
                q = insert_op(&q, t, pos, o.clone());
            }
            q
        };
        if kind == "TINS" {
            // an extra thread (empty, or one relaxed load of an unrelated atomic) spawned and
            // joined by main at every pair of positions
            let nt = b.threads.len();
            if nt >= 4 {
                continue;
            }
            for body in 0..2 {
                let mut bb = b.clone();
                if body == 1 {
                    bb.objs.atomics.push(7);
                    bb.threads.push(vec![ld(bb.objs.atomics.len() - 1, Rlx)]);
                } else {
                    bb.threads.push(vec![]);
                }
                let ml = bb.threads[0].len();
                for i in 0..=ml {
                    for j in i..=ml {
                        let q = insert_op(&bb, 0, j, K::Join { t: nt }.into());
                        let mut q = insert_op(&q, 0, i, K::Spawn { t: nt }.into());
                        q.name = format!("TINS-{}", b.name);
                        out.push(q);
                    }
                }
            }
            continue;
        }
        let nt = b.threads.len();
        // main too (between the spawns, between the joins), except for the mutex pair
        for t in (if kind == "MINS" { 1 } else { 0 })..nt {
            for pos in 0..=b.threads[t].len() {
                let mut q = ins(&b, t, pos);
                q.name = format!("{}-{}", kind, b.name);
                out.push(q.clone());
                if !pairs {
                    continue;
                }
                for t2 in (t + 1)..nt {
                    for pos2 in 0..=b.threads[t2].len() {
                        let mut q2 = ins(&q, t2, pos2);
                        q2.name = format!("{}2-{}", kind, b.name);
                        out.push(q2);
                    }
                }
            }
        }
    }
    out
}

/// CV-two: two waiters that wait at most once and a notifier that issues one or two bare
/// `notify_one` (no mutex held), counts under the mutex how many waiters came back, and then
/// releases everybody (`done` flag under the mutex + `notify_all`), so that no execution
/// deadlocks and the outcome sets are compared. A waiter that is queued but still on its way to
/// blocking when the `notify_one` runs must stay a waiter.
pub fn cv_two_waiters_family() -> Vec<Program> {
    let mut out = vec![];
    let objs = Objs { atomics: vec![0, 0], mutexes: 1, condvars: 1, ..Default::default() };
    let lk = || Op::from(K::Lock { m: 0 });
    let ul = || Op::from(K::Unlock { m: 0 });
    // a0: came back, a1: done
    let waiter = |post: bool| -> Vec<Op> {
        let mut v = vec![lk(), ld(1, Sc), K::Wait { cv: 0, m: 0 }.when(1, Res::V(0))];
        if post {
            v.push(ld(1, Sc));
        }
        v.push(fadd(0, 1, Sc));
        v.push(ul());
        v
    };
    for post in [false, true] {
        for n_notifies in 1..=2usize {
            let mut nt: Vec<Op> = vec![];
            for _ in 0..n_notifies {
                nt.push(K::NotifyOne { cv: 0 }.into());
            }
            nt.extend(vec![lk(), ld(0, Sc), st(1, 1, Sc), K::NotifyAll { cv: 0 }.into(), ul()]);
            if n_notifies == 1 {
                out.push(with_main("CV-two", objs.clone(), vec![], vec![waiter(post), waiter(post)], nt.clone(), vec![]));
            }
            out.push(with_main("CV-two-main-waits", objs.clone(), vec![], vec![waiter(post), nt], waiter(post), vec![]));
        }
    }
    out
}

/// SPIN-pingpong: two spinners that wait for each other in turn and a setter that starts the
/// chain: A awaits x, sets y, awaits z; B awaits y, sets z; C sets x. Two threads are inside
/// yield loops at the same time while a third can run, so the scheduler's choice among several
/// yielded threads (the one that yielded least often goes first) decides whether the setter ever
/// runs. Every assignment of the three roles to main / first child / second child; relaxed and
/// release/acquire.
pub fn spin_pingpong_family() -> Vec<Program> {
    let mut out = vec![];
    for (ld_mo, st_mo) in [(Rlx, Rlx), (Acq, Rel)] {
        let aw = |a: usize| Op::from(K::Await { a, mo: ld_mo, want: 1 });
        let aws = |a: usize| Op::from(K::AwaitSpun { a, mo: ld_mo, want: 1 });
        let role_a = |spun: bool| vec![if spun { aws(0) } else { aw(0) }, st(1, 1, st_mo), aw(2)];
        let role_b = || vec![aw(1), st(2, 1, st_mo)];
        let role_c = || vec![st(0, 1, st_mo)];
        for spun in [false, true] {
            let roles: Vec<Vec<Op>> = vec![role_a(spun), role_b(), role_c()];
            let perms: [[usize; 3]; 6] = [[0, 1, 2], [0, 2, 1], [1, 0, 2], [1, 2, 0], [2, 0, 1], [2, 1, 0]];
            for pm in perms {
                // main plays roles[pm[0]], the children roles[pm[1]], roles[pm[2]]
                out.push(with_main("SPIN-pingpong", atomics(3), vec![], vec![roles[pm[1]].clone(), roles[pm[2]].clone()], roles[pm[0]].clone(), vec![]));
            }
        }
    }
    out
}

/// LOAD-then-wait: a relaxed (or acquire) load with several candidate stores directly followed,
/// in the same thread, by a `Notify::wait` that can return spuriously - a Load decision directly
/// in front of a Spurious decision - with the store and the notification in one or two other
/// threads, the waiter being main or a child, and a probe of the notifier's flag after the wait
/// (tells a spurious return from a real one).
pub fn load_then_wait_family() -> Vec<Program> {
    let mut out = vec![];
    let objs = Objs { atomics: vec![0, 0], notifies: 1, ..Default::default() };
    for lmo in [Rlx, Acq] {
        for nstores in 1..=2u64 {
            let stores: Vec<Op> = (1..=nstores).map(|v| st(0, v, Rlx)).collect();
            let waiter: Vec<Op> = vec![ld(0, lmo), K::NWait { n: 0 }.into(), fadd(1, 0, Sc)];
            let notifier: Vec<Op> = vec![st(1, 1, Sc), K::NNotify { n: 0 }.into()];
            // three threads: waiter, storing thread, notifier
            out.push(with_main("LOAD-then-wait", objs.clone(), vec![], vec![stores.clone(), notifier.clone()], waiter.clone(), vec![]));
            out.push(with_main("LOAD-then-wait", objs.clone(), vec![], vec![waiter.clone(), stores.clone(), notifier.clone()], vec![], vec![]));
            // two threads: the storing thread also notifies
            let both: Vec<Op> = stores.iter().cloned().chain(notifier.iter().cloned()).collect();
            out.push(with_main("LOAD-then-wait-2", objs.clone(), vec![], vec![both.clone()], waiter.clone(), vec![]));
            out.push(with_main("LOAD-then-wait-2", objs.clone(), vec![], vec![waiter.clone()], both, vec![]));
        }
    }
    out
}

/// ARC-getmut-acq: three handles - main keeps two, a child gets one, writes a cell (not part of
/// the payload) and drops its handle; main drops its second handle and calls `get_mut` on the
/// first; if that succeeds the child's drop has happened, and main reads / writes the cell: a
/// successful `get_mut` must acquire every earlier drop, also when the caller itself was the
/// last one to drop. With one or two children, the cell accessed by the first one.
pub fn arc_getmut_acq_family() -> Vec<Program> {
    let mut out = vec![];
    for nremote in 1..=2usize {
        let mut pre: Vec<Op> = vec![K::ArcNew { h: 0, arc: 0 }.into()];
        for t in 1..=nremote {
            pre.push(K::ArcClone { from: 0, to: 2 * t }.into());
        }
        let nh = 2 * nremote + 2;
        pre.push(K::ArcClone { from: 0, to: nh }.into());
        for child_writes in [true, false] {
            let remote: Vec<Vec<Op>> = (1..=nremote).map(|t| if t == 1 { vec![if child_writes { wr(0) } else { rd(0) }, K::ArcDrop { h: 2 * t }.into()] } else { vec![K::ArcDrop { h: 2 * t }.into()] }).collect();
            for drop_first in [true, false] {
                // main: [drop its second handle]; get_mut; access the cell if it succeeded
                let mut mid: Vec<Op> = vec![];
                if drop_first {
                    mid.push(K::ArcDrop { h: nh }.into());
                }
                let gi = nremote + mid.len(); // index of get_mut in main (after the spawns)
                mid.push(K::ArcGetMut { h: 0 }.into());
                let acc = if child_writes { K::CellRead { c: 0 } } else { K::CellWrite { c: 0 } };
                let objs = Objs { handles: nh + 1, arcs: vec![None], cells: 1, ..Default::default() };
                let mut p = with_main("ARC-getmut-acq", objs, pre.clone(), remote.clone(), mid, vec![]);
                // the guarded access goes right after get_mut; indices are positions in main
                let pos = p.threads[0].iter().position(|o| matches!(o.k, K::ArcGetMut { .. })).unwrap();
                let _ = gi;
                p.threads[0].insert(pos + 1, acc.when(pos, Res::V(1)));
                out.push(p);
            }
        }
    }
    out
}
