//! Program families: exhaustive generators by size level, smallest first, modulo symmetry
//! (child threads are unordered, objects of one kind are interchangeable).

use crate::ir::MO::*;
use crate::ir::*;
use std::collections::HashSet;

/// All sequences over `alpha` of length 1..=maxlen
pub fn seqs(alpha: &[Op], maxlen: usize) -> Vec<Vec<Op>> {
    let mut out: Vec<Vec<Op>> = vec![];
    let mut cur: Vec<Vec<Op>> = vec![vec![]];
    for _ in 0..maxlen {
        let mut nxt = vec![];
        for s in &cur {
            for a in alpha {
                let mut s2 = s.clone();
                s2.push(a.clone());
                nxt.push(s2);
            }
        }
        out.extend(nxt.iter().cloned());
        cur = nxt;
    }
    out
}

/// All multisets of `k` threads from `pool` (indices non-decreasing) with total length <= max_total
pub fn thread_sets(pool: &[Vec<Op>], k: usize, max_total: usize) -> Vec<Vec<Vec<Op>>> {
    fn rec(pool: &[Vec<Op>], k: usize, start: usize, left: usize, cur: &mut Vec<usize>, out: &mut Vec<Vec<Vec<Op>>>) {
        if cur.len() == k {
            out.push(cur.iter().map(|&i| pool[i].clone()).collect());
            return;
        }
        for i in start..pool.len() {
            if pool[i].len() > left {
                continue;
            }
            cur.push(i);
            rec(pool, k, i, left - pool[i].len(), cur, out);
            cur.pop();
        }
    }
    let mut out = vec![];
    rec(pool, k, 0, max_total, &mut vec![], &mut out);
    out
}

fn atomic_of(k: &K) -> Option<usize> {
    match *k {
        K::Load { a, .. } | K::Store { a, .. } | K::Swap { a, .. } | K::FetchAdd { a, .. } | K::Cas { a, .. } | K::UnsyncLoad { a } | K::WithMut { a } | K::Await { a, .. } => Some(a),
        _ => None,
    }
}

fn set_atomic(k: &mut K, n: usize) {
    match k {
        K::Load { a, .. } | K::Store { a, .. } | K::Swap { a, .. } | K::FetchAdd { a, .. } | K::Cas { a, .. } | K::UnsyncLoad { a } | K::WithMut { a } | K::Await { a, .. } => *a = n,
        _ => {}
    }
}

/// Canonical form of a set of child threads over atomics: sort the threads, rename atomics in
/// first-use order, then number the written values in order of appearance.
/// Placeholder values: stores/swaps/cas-new use 0 and are numbered here; `FetchAdd` with v = 0
/// stays a pure read; other `FetchAdd`s get distinct multiples of 16.
pub fn canon_atomic_children(mut ch: Vec<Vec<Op>>, nat: usize) -> Vec<Vec<Op>> {
    // iterate: sorting depends on names, names depend on order; two rounds reach a fixpoint for
    // the sizes used here (and any fixpoint is a valid representative since we dedupe by text)
    for _ in 0..3 {
        ch.sort();
        let mut map: Vec<Option<usize>> = vec![None; nat];
        let mut next = 0;
        for op in ch.iter().flatten() {
            if let Some(a) = atomic_of(&op.k) {
                if map[a].is_none() {
                    map[a] = Some(next);
                    next += 1;
                }
            }
        }
        for op in ch.iter_mut().flatten() {
            if let Some(a) = atomic_of(&op.k) {
                set_atomic(&mut op.k, map[a].unwrap());
            }
        }
    }
    ch.sort();
    let mut v = 0u64;
    let mut f = 0u64;
    for op in ch.iter_mut().flatten() {
        match &mut op.k {
            K::Store { v: x, .. } | K::Swap { v: x, .. } => {
                v += 1;
                *x = v;
            }
            K::Cas { new, .. } => {
                v += 1;
                *new = v;
            }
            K::FetchAdd { v: x, .. } if *x != 0 => {
                f += 1;
                *x = 16 * f;
            }
            _ => {}
        }
    }
    ch
}

fn used_atomics(ch: &[Vec<Op>]) -> usize {
    ch.iter().flatten().filter_map(|op| atomic_of(&op.k)).max().map(|m| m + 1).unwrap_or(0)
}

/// Every location must be touched by at least two threads and written at least once
fn interesting(ch: &[Vec<Op>], nat: usize) -> bool {
    for a in 0..nat {
        let touching = ch.iter().filter(|t| t.iter().any(|op| atomic_of(&op.k) == Some(a))).count();
        let written = ch.iter().flatten().any(|op| atomic_of(&op.k) == Some(a) && !matches!(op.k, K::Load { .. }));
        if touching < 2 || !written {
            return false;
        }
    }
    true
}

fn finish_atomic_program(name: &str, ch: Vec<Vec<Op>>, final_mo: MO) -> Program {
    let nat = used_atomics(&ch);
    let tail: Vec<Op> = (0..nat).map(|a| ld(a, final_mo)).collect();
    with_main(name, atomics(nat), vec![], ch, vec![], tail)
}

/// Family A-sc: all SeqCst; `rmw_only` replaces loads by `fetch_add 0` and stores by swaps.
pub fn a_sc(nat: usize, nthreads: usize, maxlen: usize, max_total: usize, rmw_only: bool) -> Vec<Program> {
    let mut alpha: Vec<Op> = vec![];
    for a in 0..nat {
        if rmw_only {
            alpha.push(fadd(a, 0, Sc));
            alpha.push(swap(a, 0, Sc));
            alpha.push(fadd(a, 1, Sc));
        } else {
            alpha.push(ld(a, Sc));
            alpha.push(st(a, 0, Sc));
            alpha.push(swap(a, 0, Sc));
            alpha.push(fadd(a, 1, Sc));
            alpha.push(cas(a, 0, 0, Sc, Sc));
        }
    }
    let pool = seqs(&alpha, maxlen);
    let mut seen = HashSet::new();
    let mut out = vec![];
    for ch in thread_sets(&pool, nthreads, max_total) {
        if !interesting(&ch, nat) {
            continue;
        }
        let ch = canon_atomic_children(ch, nat);
        let p = finish_atomic_program(if rmw_only { "A-sc-rmw" } else { "A-sc" }, ch, Sc);
        if seen.insert(p.text()) {
            out.push(p);
        }
    }
    out
}

/// Family LIT: loads / stores / RMWs / fences with every ordering combination.
/// `full_orders`: all five RMW orderings and AcqRel fences; otherwise a reduced set.
pub fn lit(nat: usize, nthreads: usize, maxlen: usize, max_total: usize, full_orders: bool, with_cas: bool) -> Vec<Program> {
    let mut alpha: Vec<Op> = vec![];
    let rmws: &[MO] = if full_orders { &MO::RMWS } else { &[Rlx, AcqRel, Sc] };
    let fences: &[MO] = if full_orders { &MO::FENCES } else { &[Acq, Rel, Sc] };
    for a in 0..nat {
        for &m in &MO::LOADS {
            alpha.push(ld(a, m));
        }
        for &m in &MO::STORES {
            alpha.push(st(a, 0, m));
        }
        for &m in rmws {
            alpha.push(fadd(a, 1, m));
        }
        if with_cas {
            for &m in rmws {
                // expecting the initial value: succeeds or fails depending on what it reads
                alpha.push(cas(a, 0, 0, m, if m == Sc { Sc } else if m.is_acq() { Acq } else { Rlx }));
            }
        }
    }
    for &m in fences {
        alpha.push(fence(m));
    }
    let pool: Vec<Vec<Op>> = seqs(&alpha, maxlen)
        .into_iter()
        // a thread consisting only of fences observes nothing
        .filter(|s| s.iter().any(|op| !matches!(op.k, K::Fence { .. })))
        .collect();
    let mut seen = HashSet::new();
    let mut out = vec![];
    for ch in thread_sets(&pool, nthreads, max_total) {
        if !interesting(&ch, nat) {
            continue;
        }
        let ch = canon_atomic_children(ch, nat);
        let p = finish_atomic_program("LIT", ch, Rlx);
        if seen.insert(p.text()) {
            out.push(p);
        }
    }
    out
}

/// The classic shapes with every ordering assignment (sentinel S24) and the defect sentinels.
pub fn lit_sentinels() -> Vec<Program> {
    let mut out = vec![];
    let mk = |name: &str, nat: usize, ch: Vec<Vec<Op>>| with_main(name, atomics(nat), vec![], ch, vec![], (0..nat).map(|a| ld(a, Rlx)).collect());
    for &s in &MO::STORES {
        for &l in &MO::LOADS {
            out.push(mk("S24-SB", 2, vec![vec![st(0, 1, s), ld(1, l)], vec![st(1, 1, s), ld(0, l)]]));
            out.push(mk("S24-MP", 2, vec![vec![st(0, 1, Rlx), st(1, 1, s)], vec![ld(1, l), ld(0, Rlx)]]));
            out.push(mk("S24-CoRR", 1, vec![vec![st(0, 1, s)], vec![st(0, 2, s)], vec![ld(0, l), ld(0, l)]]));
            out.push(mk("S24-WRC", 2, vec![vec![st(0, 1, s)], vec![ld(0, l), st(1, 1, s)], vec![ld(1, l), ld(0, l)]]));
        }
        out.push(mk("S24-2+2W", 2, vec![vec![st(0, 1, s), st(1, 2, s)], vec![st(1, 1, s), st(0, 2, s)]]));
    }
    for &f in &[Acq, Rel, AcqRel, Sc] {
        out.push(mk("S24-SB+F", 2, vec![vec![st(0, 1, Rlx), fence(f), ld(1, Rlx)], vec![st(1, 1, Rlx), fence(f), ld(0, Rlx)]]));
        out.push(mk("S24-MP+F", 2, vec![vec![st(0, 1, Rlx), fence(f), st(1, 1, Rlx)], vec![ld(1, Rlx), fence(f), ld(0, Rlx)]]));
    }
    // S25 release sequence through a foreign RMW
    for &u in &MO::RMWS {
        out.push(mk("S25-relseq", 2, vec![vec![st(0, 1, Rlx), st(1, 1, Rel)], vec![fadd(1, 16, u)], vec![ld(1, Acq), ld(0, Rlx)]]));
    }
    // S26 the C02 example
    out.push(mk("S26-acqfence", 3, vec![vec![st(0, 1, Rlx), st(1, 1, Rel)], vec![ld(1, Rlx), st(2, 1, Rel)], vec![ld(2, Acq), fence(Acq), ld(0, Rlx)]]));
    // S27 the C03 examples
    out.push(mk("S27-coh", 1, vec![vec![st(0, 1, Rlx), st(0, 2, Rlx)], vec![st(0, 3, Rlx), ld(0, Rlx)]]));
    out.push(mk("S27-rmw", 1, vec![vec![st(0, 1, Rlx)], vec![swap(0, 2, Rlx)]]));
    // D12, D16, RMW store buffering
    out.push(mk("S-D12", 2, vec![vec![st(0, 1, Rlx), st(1, 1, Rlx)], vec![ld(1, Rlx), cas(0, 7, 9, Rlx, Rlx)]]));
    out.push(mk("S-D16", 2, vec![vec![st(0, 1, Sc), st(0, 2, Sc), st(1, 1, Rlx)], vec![ld(1, Rlx), ld(0, Sc)]]));
    out.push(mk("S-SB-rmw", 2, vec![vec![st(0, 1, Rlx), fadd(1, 0, Rlx)], vec![st(1, 1, Rlx), fadd(0, 0, Rlx)]]));
    // IRIW
    for &(s, l) in &[(Rlx, Rlx), (Rel, Acq), (Sc, Sc)] {
        out.push(mk("S24-IRIW", 2, vec![vec![st(0, 1, s)], vec![st(1, 1, s)], vec![ld(0, l), ld(1, l)], vec![ld(1, l), ld(0, l)]]));
    }
    // RWC+syncs / W+RWC from tests/fence.rs
    out.push(mk("S-RWC+syncs", 2, vec![vec![st(0, 1, Rlx)], vec![ld(0, Rlx), fence(Sc), ld(1, Rlx)], vec![st(1, 1, Rlx), fence(Sc), ld(0, Rlx)]]));
    out.push(mk("S-W+RWC", 3, vec![vec![st(0, 1, Rlx), st(2, 1, Rel)], vec![ld(2, Acq), fence(Sc), ld(1, Rlx)], vec![st(1, 1, Rlx), fence(Sc), ld(0, Rlx)]]));
    // S28: history ring overflow (9 stores to one location || 2 loads); soundness only
    out.push(mk("S28-overflow", 1, vec![(1..=9).map(|v| st(0, v, Rlx)).collect(), vec![ld(0, Rlx), ld(0, Rlx)]]));
    out
}

/// Sentinels for the interleaving oracle
pub fn asc_sentinels() -> Vec<Program> {
    let mk = |name: &str, nat: usize, ch: Vec<Vec<Op>>| with_main(name, atomics(nat), vec![], ch, vec![], (0..nat).map(|a| ld(a, Sc)).collect());
    vec![
        // S01 (D1)
        mk("S01", 1, vec![vec![st(0, 1, Sc), ld(0, Sc)], vec![ld(0, Sc), st(0, 2, Sc)]]),
        // S02 RMW-only, three threads
        mk("S02", 1, vec![vec![swap(0, 1, Sc)], vec![swap(0, 2, Sc)], vec![fadd(0, 0, Sc), fadd(0, 0, Sc)]]),
        // S03 independence
        mk("S03", 2, vec![vec![swap(0, 1, Sc), fadd(0, 0, Sc)], vec![fadd(0, 0, Sc), swap(0, 2, Sc)], vec![swap(1, 3, Sc)]]),
    ]
}
