//! Litmus table with published RC11 verdicts: validates the RC11 enumerator on every run.

use crate::ir::MO::*;
use crate::ir::*;
use crate::rc11::{self, Variant};

pub struct Litmus {
    pub name: &'static str,
    pub prog: Program,
    /// required results: (thread, op index, result)
    pub asked: Vec<(usize, usize, Res)>,
    pub allowed: bool,
}

fn lit(name: &'static str, nat: usize, children: Vec<Vec<Op>>, tail: Vec<Op>, asked: Vec<(usize, usize, Res)>, allowed: bool) -> Litmus {
    Litmus { name, prog: with_main(name, atomics(nat), vec![], children, vec![], tail), asked, allowed }
}

pub fn matches(o: &Outcome, asked: &[(usize, usize, Res)]) -> bool {
    asked.iter().all(|(t, i, r)| o[*t][*i] == *r)
}

pub fn table() -> Vec<Litmus> {
    let v0 = Res::V(0);
    let v1 = Res::V(1);
    let mut t = vec![];
    // SB
    for (n, s, l, allowed) in [("SB rlx", Rlx, Rlx, true), ("SB rel/acq", Rel, Acq, true), ("SB sc", Sc, Sc, false)] {
        t.push(lit(n, 2, vec![vec![st(0, 1, s), ld(1, l)], vec![st(1, 1, s), ld(0, l)]], vec![], vec![(1, 1, v0), (2, 1, v0)], allowed));
    }
    t.push(lit("SB rlx + sc fences", 2, vec![vec![st(0, 1, Rlx), fence(Sc), ld(1, Rlx)], vec![st(1, 1, Rlx), fence(Sc), ld(0, Rlx)]], vec![], vec![(1, 2, v0), (2, 2, v0)], false));
    t.push(lit("SB one sc fence", 2, vec![vec![st(0, 1, Rlx), fence(Sc), ld(1, Rlx)], vec![st(1, 1, Rlx), ld(0, Rlx)]], vec![], vec![(1, 2, v0), (2, 1, v0)], true));
    t.push(lit("SB acqrel fences", 2, vec![vec![st(0, 1, Rlx), fence(AcqRel), ld(1, Rlx)], vec![st(1, 1, Rlx), fence(AcqRel), ld(0, Rlx)]], vec![], vec![(1, 2, v0), (2, 2, v0)], true));
    // MP: data a0, flag a1
    for (n, s, l, allowed) in [("MP rlx/rlx", Rlx, Rlx, true), ("MP rel/rlx", Rel, Rlx, true), ("MP rlx/acq", Rlx, Acq, true), ("MP rel/acq", Rel, Acq, false), ("MP sc/sc", Sc, Sc, false)] {
        t.push(lit(n, 2, vec![vec![st(0, 1, Rlx), st(1, 1, s)], vec![ld(1, l), ld(0, Rlx)]], vec![], vec![(2, 0, v1), (2, 1, v0)], allowed));
    }
    t.push(lit("MP fences", 2, vec![vec![st(0, 1, Rlx), fence(Rel), st(1, 1, Rlx)], vec![ld(1, Rlx), fence(Acq), ld(0, Rlx)]], vec![], vec![(2, 0, v1), (2, 2, v0)], false));
    t.push(lit("MP rel fence / acq load", 2, vec![vec![st(0, 1, Rlx), fence(Rel), st(1, 1, Rlx)], vec![ld(1, Acq), ld(0, Rlx)]], vec![], vec![(2, 0, v1), (2, 1, v0)], false));
    t.push(lit("MP rel store / acq fence", 2, vec![vec![st(0, 1, Rlx), st(1, 1, Rel)], vec![ld(1, Rlx), fence(Acq), ld(0, Rlx)]], vec![], vec![(2, 0, v1), (2, 2, v0)], false));
    t.push(lit("MP acq fence on wrong side", 2, vec![vec![st(0, 1, Rlx), fence(Acq), st(1, 1, Rlx)], vec![ld(1, Rlx), fence(Acq), ld(0, Rlx)]], vec![], vec![(2, 0, v1), (2, 2, v0)], true));
    // LB is never generated
    t.push(lit("LB rlx", 2, vec![vec![ld(0, Rlx), st(1, 1, Rlx)], vec![ld(1, Rlx), st(0, 1, Rlx)]], vec![], vec![(1, 0, v1), (2, 0, v1)], false));
    // IRIW
    for (n, s, l, allowed) in [("IRIW rlx", Rlx, Rlx, true), ("IRIW rel/acq", Rel, Acq, true), ("IRIW sc", Sc, Sc, false)] {
        t.push(lit(
            n,
            2,
            vec![vec![st(0, 1, s)], vec![st(1, 1, s)], vec![ld(0, l), ld(1, l)], vec![ld(1, l), ld(0, l)]],
            vec![],
            vec![(3, 0, v1), (3, 1, v0), (4, 0, v1), (4, 1, v0)],
            allowed,
        ));
    }
    t.push(lit(
        "IRIW rlx + sc fences",
        2,
        vec![vec![st(0, 1, Rlx)], vec![st(1, 1, Rlx)], vec![ld(0, Rlx), fence(Sc), ld(1, Rlx)], vec![ld(1, Rlx), fence(Sc), ld(0, Rlx)]],
        vec![],
        vec![(3, 0, v1), (3, 2, v0), (4, 0, v1), (4, 2, v0)],
        false,
    ));
    // WRC
    t.push(lit("WRC rel/acq", 2, vec![vec![st(0, 1, Rel)], vec![ld(0, Acq), st(1, 1, Rel)], vec![ld(1, Acq), ld(0, Acq)]], vec![], vec![(2, 0, v1), (3, 0, v1), (3, 1, v0)], false));
    // read-read coherence forbids this although T2's load is relaxed (T2's read happens-before T3's)
    t.push(lit("WRC middle rlx, same location read back", 2, vec![vec![st(0, 1, Rel)], vec![ld(0, Rlx), st(1, 1, Rel)], vec![ld(1, Acq), ld(0, Rlx)]], vec![], vec![(2, 0, v1), (3, 0, v1), (3, 1, v0)], false));
    // the example of C02: data y (a0), x (a1), z (a2); T2's relaxed load gives no edge from T1
    t.push(lit(
        "C02 example: acquire fence must not pick up a store read by another thread",
        3,
        vec![vec![st(0, 1, Rlx), st(1, 1, Rel)], vec![ld(1, Rlx), st(2, 1, Rel)], vec![ld(2, Acq), fence(Acq), ld(0, Rlx)]],
        vec![],
        vec![(2, 0, v1), (3, 0, v1), (3, 2, v0)],
        true,
    ));
    t.push(lit(
        "C02 example with acquire load in T2",
        3,
        vec![vec![st(0, 1, Rlx), st(1, 1, Rel)], vec![ld(1, Acq), st(2, 1, Rel)], vec![ld(2, Acq), fence(Acq), ld(0, Rlx)]],
        vec![],
        vec![(2, 0, v1), (3, 0, v1), (3, 2, v0)],
        false,
    ));
    // 2+2W: final x = 1 and y = 1
    for (n, s, allowed) in [("2+2W rlx", Rlx, true), ("2+2W rel", Rel, true), ("2+2W sc", Sc, false)] {
        t.push(lit(n, 2, vec![vec![st(0, 1, s), st(1, 2, s)], vec![st(1, 1, s), st(0, 2, s)]], vec![ld(0, Rlx), ld(1, Rlx)], vec![(0, 4, v1), (0, 5, v1)], allowed));
    }
    // coherence
    t.push(lit("CoRR", 1, vec![vec![st(0, 1, Rlx)], vec![ld(0, Rlx), ld(0, Rlx)]], vec![], vec![(2, 0, v1), (2, 1, v0)], false));
    t.push(lit("CoWR", 1, vec![vec![st(0, 1, Rlx), ld(0, Rlx)], vec![st(0, 2, Rlx)]], vec![], vec![(1, 1, v0)], false));
    t.push(lit("CoWR other", 1, vec![vec![st(0, 1, Rlx), ld(0, Rlx)], vec![st(0, 2, Rlx)]], vec![ld(0, Rlx)], vec![(1, 1, Res::V(2)), (0, 4, v1)], false));
    t.push(lit("CoRW", 1, vec![vec![ld(0, Rlx), st(0, 1, Rlx)], vec![st(0, 2, Rlx)]], vec![ld(0, Rlx)], vec![(1, 0, Res::V(2)), (0, 4, Res::V(2))], false));
    t.push(lit("CoWW", 1, vec![vec![st(0, 1, Rlx), st(0, 2, Rlx)]], vec![ld(0, Rlx)], vec![(0, 2, v1)], false));
    t.push(lit("CoRR two writers allowed", 1, vec![vec![st(0, 1, Rlx)], vec![st(0, 2, Rlx)], vec![ld(0, Rlx), ld(0, Rlx)]], vec![], vec![(3, 0, v1), (3, 1, Res::V(2))], true));
    // the C03 examples
    t.push(lit("D3: y=1;y=2 || y=3;r=y final", 1, vec![vec![st(0, 1, Rlx), st(0, 2, Rlx)], vec![st(0, 3, Rlx), ld(0, Rlx)]], vec![ld(0, Rlx)], vec![(2, 1, v1), (0, 4, v1)], false));
    t.push(lit("D4: store 1 || swap 2 -> (0, final 2)", 1, vec![vec![st(0, 1, Rlx)], vec![swap(0, 2, Rlx)]], vec![ld(0, Rlx)], vec![(2, 0, v0), (0, 4, Res::V(2))], false));
    // atomicity
    t.push(lit("two fetch_add both 0", 1, vec![vec![fadd(0, 1, Rlx)], vec![fadd(0, 1, Rlx)]], vec![], vec![(1, 0, v0), (2, 0, v0)], false));
    t.push(lit("two fetch_add final 2", 1, vec![vec![fadd(0, 1, Rlx)], vec![fadd(0, 1, Rlx)]], vec![ld(0, Rlx)], vec![(0, 4, Res::V(2))], true));
    // release sequences
    t.push(lit(
        "rel seq through foreign rlx RMW",
        2,
        vec![vec![st(0, 1, Rlx), st(1, 1, Rel)], vec![fadd(1, 1, Rlx)], vec![ld(1, Acq), ld(0, Rlx)]],
        vec![],
        vec![(2, 0, v1), (3, 0, Res::V(2)), (3, 1, v0)],
        false,
    ));
    t.push(lit(
        "C++11-only release sequence (same-thread rlx store)",
        2,
        vec![vec![st(0, 1, Rlx), st(1, 1, Rel), st(1, 2, Rlx)], vec![ld(1, Acq), ld(0, Rlx)]],
        vec![],
        vec![(2, 0, Res::V(2)), (2, 1, v0)],
        true,
    ));
    // RWC + syncs, W+RWC (tests/fence.rs)
    t.push(lit(
        "RWC+syncs",
        2,
        vec![vec![st(0, 1, Rlx)], vec![ld(0, Rlx), fence(Sc), ld(1, Rlx)], vec![st(1, 1, Rlx), fence(Sc), ld(0, Rlx)]],
        vec![],
        vec![(2, 0, v1), (2, 2, v0), (3, 2, v0)],
        false,
    ));
    t.push(lit(
        "W+RWC",
        3,
        vec![vec![st(0, 1, Rlx), st(2, 1, Rel)], vec![ld(2, Acq), fence(Sc), ld(1, Rlx)], vec![st(1, 1, Rlx), fence(Sc), ld(0, Rlx)]],
        vec![],
        vec![(2, 0, v1), (2, 2, v0), (3, 2, v0)],
        false,
    ));
    // D15 / D16 / D12
    // store buffering over RMWs only: (0,0) needs fadd(y)T1 -rf-> swap(y)T2 and fadd(x)T2 -rf-> swap(x)T1
    // (RMW atomicity), i.e. a po ∪ rf cycle: excluded by C02's side condition, never generated
    t.push(lit("SB over rlx RMWs (needs a po∪rf cycle)", 2, vec![vec![swap(0, 1, Rlx), fadd(1, 0, Rlx)], vec![swap(1, 1, Rlx), fadd(0, 0, Rlx)]], vec![], vec![(1, 1, v0), (2, 1, v0)], false));
    t.push(lit("SB store / RMW-read", 2, vec![vec![st(0, 1, Rlx), fadd(1, 0, Rlx)], vec![st(1, 1, Rlx), fadd(0, 0, Rlx)]], vec![], vec![(1, 1, v0), (2, 1, v0)], true));
    t.push(lit(
        "D16 sc load after rlx chain",
        2,
        vec![vec![st(0, 1, Sc), st(0, 2, Sc), st(1, 1, Rlx)], vec![ld(1, Rlx), ld(0, Sc)]],
        vec![],
        vec![(2, 0, v1), (2, 1, v1)],
        true,
    ));
    t.push(lit("D12 failed CAS reads stale", 2, vec![vec![st(0, 1, Rlx), st(1, 1, Rlx)], vec![ld(1, Rlx), cas(0, 7, 9, Rlx, Rlx)]], vec![], vec![(2, 0, v1), (2, 1, Res::Err(0))], true));
    // ISA2
    t.push(lit(
        "ISA2 rel/acq",
        3,
        vec![vec![st(0, 1, Rlx), st(1, 1, Rel)], vec![ld(1, Acq), st(2, 1, Rel)], vec![ld(2, Acq), ld(0, Rlx)]],
        vec![],
        vec![(2, 0, v1), (3, 0, v1), (3, 1, v0)],
        false,
    ));
    t
}

/// Evaluate the table; returns (tests, failures as text)
pub fn self_check() -> (usize, Vec<String>) {
    let mut fails = vec![];
    let tab = table();
    for l in &tab {
        let r = rc11::enumerate(&l.prog, Variant::Rc11, 5_000_000);
        if r.truncated {
            fails.push(format!("{}: truncated", l.name));
            continue;
        }
        let found = r.outcomes.iter().any(|o| matches(o, &l.asked));
        if found != l.allowed {
            fails.push(format!("{}: expected {} got {} ({} outcomes, {} consistent)", l.name, l.allowed, found, r.outcomes.len(), r.consistent));
        }
    }
    (tab.len(), fails)
}
