//! Program IR: data that is enumerated, run on the references, interpreted on real loom,
//! canonicalised for the known-findings file and printed as a plain Rust test.

use serde::{Deserialize, Serialize};
use std::fmt::Write as _;

#[derive(Clone, Copy, PartialEq, Eq, Hash, Debug, Serialize, Deserialize, PartialOrd, Ord)]
pub enum MO {
    Rlx,
    Acq,
    Rel,
    AcqRel,
    Sc,
}

impl MO {
    pub fn is_acq(self) -> bool {
        matches!(self, MO::Acq | MO::AcqRel | MO::Sc)
    }
    pub fn is_rel(self) -> bool {
        matches!(self, MO::Rel | MO::AcqRel | MO::Sc)
    }
    pub fn std(self) -> std::sync::atomic::Ordering {
        use std::sync::atomic::Ordering::*;
        match self {
            MO::Rlx => Relaxed,
            MO::Acq => Acquire,
            MO::Rel => Release,
            MO::AcqRel => AcqRel,
            MO::Sc => SeqCst,
        }
    }
    pub fn short(self) -> &'static str {
        match self {
            MO::Rlx => "rlx",
            MO::Acq => "acq",
            MO::Rel => "rel",
            MO::AcqRel => "ar",
            MO::Sc => "sc",
        }
    }
    pub fn rust(self) -> &'static str {
        match self {
            MO::Rlx => "Relaxed",
            MO::Acq => "Acquire",
            MO::Rel => "Release",
            MO::AcqRel => "AcqRel",
            MO::Sc => "SeqCst",
        }
    }
    /// SeqCst demoted to the strongest non-SC ordering legal for a load
    pub fn demote_load(self) -> MO {
        if self == MO::Sc {
            MO::Acq
        } else {
            self
        }
    }
    pub fn demote_store(self) -> MO {
        if self == MO::Sc {
            MO::Rel
        } else {
            self
        }
    }
    pub fn demote_rmw(self) -> MO {
        if self == MO::Sc {
            MO::AcqRel
        } else {
            self
        }
    }
    pub const LOADS: [MO; 3] = [MO::Rlx, MO::Acq, MO::Sc];
    pub const STORES: [MO; 3] = [MO::Rlx, MO::Rel, MO::Sc];
    pub const RMWS: [MO; 5] = [MO::Rlx, MO::Acq, MO::Rel, MO::AcqRel, MO::Sc];
    pub const FENCES: [MO; 4] = [MO::Acq, MO::Rel, MO::AcqRel, MO::Sc];
}

/// Result of one operation.
#[derive(Clone, Copy, PartialEq, Eq, Hash, Debug, Serialize, Deserialize, PartialOrd, Ord)]
pub enum Res {
    /// `()`
    U,
    /// a value
    V(u64),
    /// `Ok(v)`
    Ok(u64),
    /// `Err(v)`
    Err(u64),
    /// not executed because its guard was false
    Skip,
    /// not reached (the execution ended first)
    Nr,
}

impl std::fmt::Display for Res {
    fn fmt(&self, f: &mut std::fmt::Formatter<'_>) -> std::fmt::Result {
        match self {
            Res::U => write!(f, "_"),
            Res::V(v) => write!(f, "{}", v),
            Res::Ok(v) => write!(f, "Ok{}", v),
            Res::Err(v) => write!(f, "Err{}", v),
            Res::Skip => write!(f, "skip"),
            Res::Nr => write!(f, "-"),
        }
    }
}

/// "run this op only if my op #idx returned `res`"
#[derive(Clone, Copy, PartialEq, Eq, Hash, Debug, Serialize, Deserialize, PartialOrd, Ord)]
pub struct Guard {
    pub idx: usize,
    pub res: Res,
}

#[derive(Clone, PartialEq, Eq, Hash, Debug, Serialize, Deserialize, PartialOrd, Ord)]
pub enum K {
    // ---- atomics (object index into `atomics`)
    Load { a: usize, mo: MO },
    Store { a: usize, v: u64, mo: MO },
    Swap { a: usize, v: u64, mo: MO },
    FetchAdd { a: usize, v: u64, mo: MO },
    Cas { a: usize, exp: u64, new: u64, s: MO, f: MO },
    Fence { mo: MO },
    UnsyncLoad { a: usize },
    WithMut { a: usize },
    /// `while a.load(mo) != want { yield_now() }`; result is the value read last
    Await { a: usize, mo: MO, want: u64 },
    /// the same loop; the result tells whether it had to spin (1) or exited at once (0)
    AwaitSpun { a: usize, mo: MO, want: u64 },
    /// `while !(a.load(mo) == wa && b.load(mo) == wb) { yield_now() }`: two loads per iteration
    Await2 { a: usize, b: usize, mo: MO, wa: u64, wb: u64 },
    // ---- cells
    CellRead { c: usize },
    CellWrite { c: usize },
    /// `get()` / `get_mut()`: the access lasts until the matching `CellEnd` (guard held across
    /// other operations)
    CellBegin { c: usize, w: bool },
    CellEnd { c: usize, w: bool },
    // ---- mutex
    Lock { m: usize },
    TryLock { m: usize },
    Unlock { m: usize },
    // ---- rwlock
    Read { l: usize },
    TryRead { l: usize },
    UnlockR { l: usize },
    Write { l: usize },
    TryWrite { l: usize },
    UnlockW { l: usize },
    // ---- the protected value (through the guard the thread holds / through `&mut` or by value
    // once no other thread can touch the lock any more)
    GSet { m: usize, v: u64 },
    GGet { m: usize },
    LSet { l: usize, v: u64 },
    LGet { l: usize },
    MGetMut { m: usize },
    MIntoInner { m: usize },
    LGetMut { l: usize },
    LIntoInner { l: usize },
    // ---- condvar / notify / park
    Wait { cv: usize, m: usize },
    NotifyOne { cv: usize },
    NotifyAll { cv: usize },
    NWait { n: usize },
    NNotify { n: usize },
    Park,
    Unpark { t: usize },
    /// the canonical usage: `while a.load(mo) != want { n.wait() }` (robust against spurious
    /// and stolen wake-ups); likewise with `park()` and, holding mutex `m`, `cv.wait(guard)`
    NWaitUntil { n: usize, a: usize, mo: MO, want: u64 },
    ParkUntil { a: usize, mo: MO, want: u64 },
    CvWaitUntil { cv: usize, m: usize, a: usize, mo: MO, want: u64 },
    // ---- channel
    Send { ch: usize, v: u64 },
    Recv { ch: usize },
    TryRecv { ch: usize },
    DropRx { ch: usize },
    /// `mem::forget` the receiver (queued messages are then leaked)
    ForgetRx { ch: usize },
    // ---- arc (handle slots)
    ArcNew { h: usize, arc: usize },
    /// move the handle of slot `h` into the calling thread's own frame (no loom operation); it is
    /// then dropped by unwinding if the thread panics
    ArcHold { h: usize },
    ArcClone { from: usize, to: usize },
    ArcDrop { h: usize },
    ArcForget { h: usize },
    ArcCount { h: usize },
    ArcGetMut { h: usize },
    ArcTryUnwrap { h: usize },
    ArcPtrEq { h: usize, h2: usize },
    /// `into_raw` followed at once by `from_raw` into the same slot
    ArcRawRoundTrip { h: usize },
    /// `increment_strong_count` on the pointer of `h`, new handle goes to slot `to` via from_raw
    ArcIncStrong { h: usize, to: usize },
    /// `into_raw(h)` then `decrement_strong_count`
    ArcDecStrong { h: usize },
    // ---- leak tracking
    TrackNew { k: usize },
    TrackDrop { k: usize },
    TrackForget { k: usize },
    Alloc { k: usize },
    Dealloc { k: usize },
    // ---- statics
    TlsWith { k: usize },
    TlsNested { k: usize, k2: usize },
    LazyGet { k: usize },
    // ---- threads
    Spawn { t: usize },
    Join { t: usize },
    Yield,
    /// no loom operation: the harness notes how many decisions were taken so far (note 40)
    Mark,
    // ---- control
    StopExploring,
    Explore,
    SkipBranch,
    PanicHere { tag: u64 },
}

#[derive(Clone, PartialEq, Eq, Hash, Debug, Serialize, Deserialize, PartialOrd, Ord)]
pub struct Op {
    #[serde(skip_serializing_if = "Option::is_none", default)]
    pub g: Option<Guard>,
    pub k: K,
}

impl From<K> for Op {
    fn from(k: K) -> Op {
        Op { g: None, k }
    }
}

impl K {
    pub fn when(self, idx: usize, res: Res) -> Op {
        Op { g: Some(Guard { idx, res }), k: self }
    }
}

/// Object counts. Objects of one kind are numbered 0..n.
#[derive(Clone, PartialEq, Eq, Hash, Debug, Serialize, Deserialize, Default, PartialOrd, Ord)]
pub struct Objs {
    /// initial values of the atomics
    #[serde(default)]
    pub atomics: Vec<u64>,
    #[serde(default)]
    pub cells: usize,
    #[serde(default)]
    pub mutexes: usize,
    #[serde(default)]
    pub rwlocks: usize,
    #[serde(default)]
    pub condvars: usize,
    #[serde(default)]
    pub notifies: usize,
    #[serde(default)]
    pub chans: usize,
    /// per channel: index of an atomic that every message's `Drop` increments (or none)
    #[serde(default, skip_serializing_if = "Vec::is_empty")]
    pub chan_rmw: Vec<Option<usize>>,
    /// number of Arc handle slots
    #[serde(default)]
    pub handles: usize,
    /// per arc object: index of the cell written by the payload's `Drop` (or none)
    #[serde(default)]
    pub arcs: Vec<Option<usize>>,
    /// per arc object: index of an atomic that the payload's `Drop` loads and increments
    #[serde(default, skip_serializing_if = "Vec::is_empty")]
    pub arc_rmw: Vec<Option<usize>>,
    /// per arc object: the payload's `Drop` panics (tag 4242) unless the thread is unwinding
    #[serde(default, skip_serializing_if = "Vec::is_empty")]
    pub arc_panic: Vec<bool>,
    #[serde(default)]
    pub tracks: usize,
    #[serde(default)]
    pub allocs: usize,
    /// thread-local keys: true = the value's initialiser and destructor perform a loom op
    #[serde(default)]
    pub tls: Vec<bool>,
    /// lazy statics: true = the initialiser performs a loom op (a yield)
    #[serde(default)]
    pub lazies: Vec<bool>,
    /// spin loops (`Await`) call `hint::spin_loop()` instead of `thread::yield_now()`
    #[serde(default, skip_serializing_if = "std::ops::Not::not")]
    pub spin_hint: bool,
}

#[derive(Clone, PartialEq, Eq, Hash, Debug, Serialize, Deserialize, PartialOrd, Ord)]
pub struct Program {
    #[serde(default)]
    pub name: String,
    pub objs: Objs,
    /// thread 0 is the model's main thread
    pub threads: Vec<Vec<Op>>,
}

pub type Outcome = Vec<Vec<Res>>;

pub fn fmt_outcome(o: &Outcome) -> String {
    let mut s = String::new();
    for (t, rs) in o.iter().enumerate() {
        if t > 0 {
            s.push('|');
        }
        for (i, r) in rs.iter().enumerate() {
            if i > 0 {
                s.push(',');
            }
            let _ = write!(s, "{}", r);
        }
    }
    s
}

fn fnv128(data: &[u8]) -> u128 {
    let mut h: u128 = 0x6c62272e07bb014262b821756295c58d;
    for &b in data {
        h ^= b as u128;
        h = h.wrapping_mul(0x0000000001000000000000000000013B);
    }
    h
}

impl Program {
    pub fn nthreads(&self) -> usize {
        self.threads.len()
    }

    pub fn nops(&self) -> usize {
        self.threads.iter().map(|t| t.len()).sum()
    }

    /// Canonical one-line text (without the name).
    pub fn text(&self) -> String {
        let mut s = String::new();
        let o = &self.objs;
        if !o.atomics.is_empty() {
            let _ = write!(s, "a={:?} ", o.atomics);
        }
        macro_rules! cnt {
            ($f:ident, $n:expr) => {
                if o.$f > 0 {
                    let _ = write!(s, "{}={} ", $n, o.$f);
                }
            };
        }
        cnt!(cells, "c");
        cnt!(mutexes, "m");
        cnt!(rwlocks, "l");
        cnt!(condvars, "cv");
        cnt!(notifies, "n");
        cnt!(chans, "ch");
        if !o.chan_rmw.is_empty() {
            let _ = write!(s, "chan_rmw={:?} ", o.chan_rmw);
        }
        cnt!(handles, "h");
        if !o.arcs.is_empty() {
            let _ = write!(s, "arcs={:?} ", o.arcs);
        }
        if !o.arc_rmw.is_empty() {
            let _ = write!(s, "arc_rmw={:?} ", o.arc_rmw);
        }
        if !o.arc_panic.is_empty() {
            let _ = write!(s, "arc_panic={:?} ", o.arc_panic);
        }
        cnt!(tracks, "tr");
        cnt!(allocs, "al");
        if !o.tls.is_empty() {
            let _ = write!(s, "tls={:?} ", o.tls);
        }
        if !o.lazies.is_empty() {
            let _ = write!(s, "lazy={:?} ", o.lazies);
        }
        if o.spin_hint {
            let _ = write!(s, "spin_hint ");
        }
        for (t, ops) in self.threads.iter().enumerate() {
            let _ = write!(s, "{}T{}: ", if t > 0 { " || " } else { "" }, t);
            for (i, op) in ops.iter().enumerate() {
                if i > 0 {
                    s.push_str("; ");
                }
                s.push_str(&op_text(op));
            }
        }
        s
    }

    pub fn id(&self) -> String {
        format!("{:032x}", fnv128(self.text().as_bytes()))
    }

    /// Short id (first 16 hex digits) used in file names
    pub fn short_id(&self) -> String {
        self.id()[..16].to_string()
    }

    pub fn has_sc_access(&self) -> bool {
        self.threads.iter().flatten().any(|op| match &op.k {
            K::Load { mo, .. } | K::Store { mo, .. } | K::Swap { mo, .. } | K::FetchAdd { mo, .. } | K::Await { mo, .. } | K::AwaitSpun { mo, .. } | K::Await2 { mo, .. } => *mo == MO::Sc,
            K::Cas { s, f, .. } => *s == MO::Sc || *f == MO::Sc,
            _ => false,
        })
    }

    pub fn has_fence(&self) -> bool {
        self.threads.iter().flatten().any(|op| matches!(op.k, K::Fence { .. }))
    }
}

pub fn op_text(op: &Op) -> String {
    let mut s = String::new();
    if let Some(g) = &op.g {
        let _ = write!(s, "if#{}={}:", g.idx, g.res);
    }
    let k = &op.k;
    let _ = match k {
        K::Load { a, mo } => write!(s, "ld a{}.{}", a, mo.short()),
        K::Store { a, v, mo } => write!(s, "st a{}={}.{}", a, v, mo.short()),
        K::Swap { a, v, mo } => write!(s, "swap a{}={}.{}", a, v, mo.short()),
        K::FetchAdd { a, v, mo } => write!(s, "fadd a{}+{}.{}", a, v, mo.short()),
        K::Cas { a, exp, new, s: so, f } => write!(s, "cas a{}:{}->{}.{}.{}", a, exp, new, so.short(), f.short()),
        K::Fence { mo } => write!(s, "fence.{}", mo.short()),
        K::UnsyncLoad { a } => write!(s, "unsync_ld a{}", a),
        K::WithMut { a } => write!(s, "with_mut a{}", a),
        K::Await { a, mo, want } => write!(s, "await a{}=={}.{}", a, want, mo.short()),
        K::AwaitSpun { a, mo, want } => write!(s, "await_spun a{}=={}.{}", a, want, mo.short()),
        K::Await2 { a, b, mo, wa, wb } => write!(s, "await a{}=={}&&a{}=={}.{}", a, wa, b, wb, mo.short()),
        K::CellRead { c } => write!(s, "rd c{}", c),
        K::CellWrite { c } => write!(s, "wr c{}", c),
        K::CellBegin { c, w } => write!(s, "{} c{}", if *w { "get_mut" } else { "get" }, c),
        K::CellEnd { c, w } => write!(s, "end_{} c{}", if *w { "get_mut" } else { "get" }, c),
        K::Lock { m } => write!(s, "lock m{}", m),
        K::TryLock { m } => write!(s, "trylock m{}", m),
        K::Unlock { m } => write!(s, "unlock m{}", m),
        K::Read { l } => write!(s, "read l{}", l),
        K::TryRead { l } => write!(s, "tryread l{}", l),
        K::UnlockR { l } => write!(s, "unlockr l{}", l),
        K::Write { l } => write!(s, "write l{}", l),
        K::TryWrite { l } => write!(s, "trywrite l{}", l),
        K::UnlockW { l } => write!(s, "unlockw l{}", l),
        K::GSet { m, v } => write!(s, "gset m{}={}", m, v),
        K::GGet { m } => write!(s, "gget m{}", m),
        K::LSet { l, v } => write!(s, "lset l{}={}", l, v),
        K::LGet { l } => write!(s, "lget l{}", l),
        K::MGetMut { m } => write!(s, "get_mut m{}", m),
        K::MIntoInner { m } => write!(s, "into_inner m{}", m),
        K::LGetMut { l } => write!(s, "get_mut l{}", l),
        K::LIntoInner { l } => write!(s, "into_inner l{}", l),
        K::Wait { cv, m } => write!(s, "wait cv{} m{}", cv, m),
        K::NotifyOne { cv } => write!(s, "notify_one cv{}", cv),
        K::NotifyAll { cv } => write!(s, "notify_all cv{}", cv),
        K::NWait { n } => write!(s, "nwait n{}", n),
        K::NNotify { n } => write!(s, "nnotify n{}", n),
        K::Park => write!(s, "park"),
        K::NWaitUntil { n, a, mo, want } => write!(s, "nwait n{} until a{}=={}.{}", n, a, want, mo.short()),
        K::ParkUntil { a, mo, want } => write!(s, "park until a{}=={}.{}", a, want, mo.short()),
        K::CvWaitUntil { cv, m, a, mo, want } => write!(s, "wait cv{} m{} until a{}=={}.{}", cv, m, a, want, mo.short()),
        K::Unpark { t } => write!(s, "unpark T{}", t),
        K::Send { ch, v } => write!(s, "send ch{} {}", ch, v),
        K::Recv { ch } => write!(s, "recv ch{}", ch),
        K::TryRecv { ch } => write!(s, "tryrecv ch{}", ch),
        K::DropRx { ch } => write!(s, "droprx ch{}", ch),
        K::ForgetRx { ch } => write!(s, "forgetrx ch{}", ch),
        K::ArcNew { h, arc } => write!(s, "h{}=arc_new A{}", h, arc),
        K::ArcHold { h } => write!(s, "hold h{}", h),
        K::ArcClone { from, to } => write!(s, "h{}=clone h{}", to, from),
        K::ArcDrop { h } => write!(s, "drop h{}", h),
        K::ArcForget { h } => write!(s, "forget h{}", h),
        K::ArcCount { h } => write!(s, "count h{}", h),
        K::ArcGetMut { h } => write!(s, "get_mut h{}", h),
        K::ArcTryUnwrap { h } => write!(s, "try_unwrap h{}", h),
        K::ArcPtrEq { h, h2 } => write!(s, "ptr_eq h{} h{}", h, h2),
        K::ArcRawRoundTrip { h } => write!(s, "raw_rt h{}", h),
        K::ArcIncStrong { h, to } => write!(s, "h{}=inc_strong h{}", to, h),
        K::ArcDecStrong { h } => write!(s, "dec_strong h{}", h),
        K::TrackNew { k } => write!(s, "track_new k{}", k),
        K::TrackDrop { k } => write!(s, "track_drop k{}", k),
        K::TrackForget { k } => write!(s, "track_forget k{}", k),
        K::Alloc { k } => write!(s, "alloc p{}", k),
        K::Dealloc { k } => write!(s, "dealloc p{}", k),
        K::TlsWith { k } => write!(s, "tls_with k{}", k),
        K::TlsNested { k, k2 } => write!(s, "tls_nested k{} k{}", k, k2),
        K::LazyGet { k } => write!(s, "lazy_get z{}", k),
        K::Spawn { t } => write!(s, "spawn T{}", t),
        K::Join { t } => write!(s, "join T{}", t),
        K::Yield => write!(s, "yield"),
        K::Mark => write!(s, "mark"),
        K::StopExploring => write!(s, "stop_exploring"),
        K::Explore => write!(s, "explore"),
        K::SkipBranch => write!(s, "skip_branch"),
        K::PanicHere { tag } => write!(s, "panic#{}", tag),
    };
    s
}

// ------------------------------------------------------------------------------------------
// Builders used by generators and sentinel tables
// ------------------------------------------------------------------------------------------

/// Wrap `children` (threads 1..) with a main thread that spawns all of them, runs `main_mid`,
/// joins all of them and then runs `main_tail`.
pub fn with_main(name: &str, objs: Objs, pre: Vec<Op>, children: Vec<Vec<Op>>, main_mid: Vec<Op>, main_tail: Vec<Op>) -> Program {
    let mut main: Vec<Op> = pre;
    for t in 1..=children.len() {
        main.push(K::Spawn { t }.into());
    }
    main.extend(main_mid);
    for t in 1..=children.len() {
        main.push(K::Join { t }.into());
    }
    main.extend(main_tail);
    let mut threads = vec![main];
    threads.extend(children);
    Program { name: name.to_string(), objs, threads }
}

pub fn atomics(n: usize) -> Objs {
    Objs { atomics: vec![0; n], ..Default::default() }
}

// ------------------------------------------------------------------------------------------
// Plain Rust text of a program (public loom API only), stored in replay files
// ------------------------------------------------------------------------------------------

/// A self-contained `#[test]` that runs the program under `loom::model` and prints the set of
/// outcomes (same notation as the replay file). Ops the generator does not cover are emitted as
/// comments and recorded as "?".
pub fn rust_test(p: &Program) -> String {
    let mut s = String::new();
    let o = &p.objs;
    let n = p.threads.len();
    let _ = writeln!(s, "// {}", p.text());
    let _ = writeln!(s, "#[test]\n#[allow(unused, clippy::all)]\nfn replay_{}() {{", p.short_id());
    let _ = writeln!(s, "    use loom::sync::atomic::{{fence, AtomicUsize, Ordering::*}};");
    let _ = writeln!(s, "    use std::sync::{{Arc as SArc, Mutex as SMutex}};");
    let _ = writeln!(s, "    let seen: SArc<SMutex<std::collections::BTreeSet<String>>> = Default::default();");
    let _ = writeln!(s, "    let seen2 = seen.clone();");
    let _ = writeln!(s, "    loom::model(move || {{");
    let mut names: Vec<String> = vec![];
    for (i, v) in o.atomics.iter().enumerate() {
        let _ = writeln!(s, "        let a{} = SArc::new(AtomicUsize::new({}));", i, v);
        names.push(format!("a{}", i));
    }
    for i in 0..o.cells {
        let _ = writeln!(s, "        let c{} = SArc::new(loom::cell::UnsafeCell::new(0u64));", i);
        names.push(format!("c{}", i));
    }
    for i in 0..o.mutexes {
        let _ = writeln!(s, "        let m{} = SArc::new(loom::sync::Mutex::new(0u64));", i);
        names.push(format!("m{}", i));
    }
    for i in 0..o.rwlocks {
        let _ = writeln!(s, "        let l{} = SArc::new(loom::sync::RwLock::new(0u64));", i);
        names.push(format!("l{}", i));
    }
    for i in 0..o.condvars {
        let _ = writeln!(s, "        let cv{} = SArc::new(loom::sync::Condvar::new());", i);
        names.push(format!("cv{}", i));
    }
    for i in 0..o.notifies {
        let _ = writeln!(s, "        let n{} = SArc::new(loom::sync::Notify::new());", i);
        names.push(format!("n{}", i));
    }
    for i in 0..o.chans {
        let _ = writeln!(s, "        let (tx{0}, rx{0}) = loom::sync::mpsc::channel::<u64>();", i);
        let _ = writeln!(s, "        let rx{0} = SArc::new(SMutex::new(Some(rx{0})));", i);
        names.push(format!("tx{}", i));
        names.push(format!("rx{}", i));
    }
    let _ = writeln!(s, "        let main_thread = loom::thread::current();");
    let _ = writeln!(s, "        let res: SArc<SMutex<Vec<Vec<String>>>> = SArc::new(SMutex::new(vec![vec![]; {}]));", n);
    names.push("main_thread".into());
    names.push("res".into());
    // child thread bodies
    for t in 1..n {
        let _ = writeln!(s, "        let body{} = {{", t);
        for nm in &names {
            let _ = writeln!(s, "            let {0} = {0}.clone();", nm);
        }
        let _ = writeln!(s, "            move || {{");
        emit_thread(&mut s, p, t, "                ");
        let _ = writeln!(s, "                res.lock().unwrap()[{}] = r;", t);
        let _ = writeln!(s, "            }}");
        let _ = writeln!(s, "        }};");
    }
    for t in 1..n {
        let _ = writeln!(s, "        let mut body{0} = Some(body{0});", t);
        let _ = writeln!(s, "        let mut h{}: Option<loom::thread::JoinHandle<()>> = None;", t);
    }
    emit_thread(&mut s, p, 0, "        ");
    let _ = writeln!(s, "        res.lock().unwrap()[0] = r;");
    let _ = writeln!(s, "        let out = res.lock().unwrap().iter().map(|t| t.join(\",\")).collect::<Vec<_>>().join(\"|\");");
    let _ = writeln!(s, "        seen2.lock().unwrap().insert(out);");
    let _ = writeln!(s, "    }});");
    let _ = writeln!(s, "    for o in seen.lock().unwrap().iter() {{\n        println!(\"{{}}\", o);\n    }}");
    let _ = writeln!(s, "}}");
    s
}

fn emit_thread(s: &mut String, p: &Program, t: usize, ind: &str) {
    let o = &p.objs;
    let _ = writeln!(s, "{}let mut r: Vec<String> = vec![];", ind);
    for i in 0..o.mutexes {
        let _ = writeln!(s, "{}let mut g_m{}: Option<loom::sync::MutexGuard<'_, u64>> = None;", ind, i);
    }
    for i in 0..o.cells {
        let _ = writeln!(s, "{}let mut g_c{}r: Vec<loom::cell::ConstPtr<u64>> = vec![];", ind, i);
        let _ = writeln!(s, "{}let mut g_c{}w: Option<loom::cell::MutPtr<u64>> = None;", ind, i);
    }
    for i in 0..o.rwlocks {
        let _ = writeln!(s, "{}let mut g_l{}r: Option<loom::sync::RwLockReadGuard<'_, u64>> = None;", ind, i);
        let _ = writeln!(s, "{}let mut g_l{}w: Option<loom::sync::RwLockWriteGuard<'_, u64>> = None;", ind, i);
    }
    for op in &p.threads[t] {
        let mut code = rust_op(t, &op.k);
        if o.spin_hint && matches!(op.k, K::Await { .. } | K::AwaitSpun { .. } | K::Await2 { .. }) {
            code = code.replace("loom::thread::yield_now()", "loom::hint::spin_loop()");
        }
        match &op.g {
            Some(g) => {
                let _ = writeln!(s, "{}if r[{}] == \"{}\" {{ {} }} else {{ r.push(\"skip\".into()); }}", ind, g.idx, g.res, code);
            }
            None => {
                let _ = writeln!(s, "{}{}", ind, code);
            }
        }
    }
    for i in 0..o.mutexes {
        let _ = writeln!(s, "{}drop(g_m{});", ind, i);
    }
    for i in 0..o.rwlocks {
        let _ = writeln!(s, "{}drop(g_l{}r);\n{}drop(g_l{}w);", ind, i, ind, i);
    }
}

fn rust_op(t: usize, k: &K) -> String {
    let u = "r.push(\"_\".into());";
    match k {
        K::Load { a, mo } => format!("r.push(a{}.load({}).to_string());", a, mo.rust()),
        K::Store { a, v, mo } => format!("a{}.store({}, {}); {}", a, v, mo.rust(), u),
        K::Swap { a, v, mo } => format!("r.push(a{}.swap({}, {}).to_string());", a, v, mo.rust()),
        K::FetchAdd { a, v, mo } => format!("r.push(a{}.fetch_add({}, {}).to_string());", a, v, mo.rust()),
        K::Cas { a, exp, new, s, f } => format!("r.push(match a{}.compare_exchange({}, {}, {}, {}) {{ Ok(v) => format!(\"Ok{{}}\", v), Err(v) => format!(\"Err{{}}\", v) }});", a, exp, new, s.rust(), f.rust()),
        K::Fence { mo } => format!("fence({}); {}", mo.rust(), u),
        K::UnsyncLoad { a } => format!("let _ = unsafe {{ a{}.unsync_load() }}; {}", a, u),
        K::Await2 { a, b, mo, wa, wb } => format!("while !(a{0}.load({2}) == {3} && a{1}.load({2}) == {4}) {{ loom::thread::yield_now(); }} {5}", a, b, mo.rust(), wa, wb, u),
        K::AwaitSpun { a, mo, want } => format!("{{ let mut spun = 0; loop {{ let v = a{}.load({}); if v == {} {{ r.push(spun.to_string()); break; }} spun = 1; loom::thread::yield_now(); }} }}", a, mo.rust(), want),
        K::Await { a, mo, want } => format!("loop {{ let v = a{}.load({}); if v == {} {{ r.push(v.to_string()); break; }} loom::thread::yield_now(); }}", a, mo.rust(), want),
        K::CellRead { c } => format!("c{}.with(|p| unsafe {{ std::ptr::read_volatile(p) }}); {}", c, u),
        K::CellWrite { c } => format!("c{}.with_mut(|p| unsafe {{ *p += 1 }}); {}", c, u),
        K::CellBegin { c, w: false } => format!("g_c{0}r.push(c{0}.get()); {1}", c, u),
        K::CellBegin { c, w: true } => format!("g_c{0}w = Some(c{0}.get_mut()); {1}", c, u),
        K::CellEnd { c, w: false } => format!("drop(g_c{}r.pop()); {}", c, u),
        K::CellEnd { c, w: true } => format!("drop(g_c{}w.take()); {}", c, u),
        K::Lock { m } => format!("g_m{0} = Some(m{0}.lock().unwrap()); {1}", m, u),
        K::TryLock { m } => format!("match m{0}.try_lock() {{ Ok(g) => {{ g_m{0} = Some(g); r.push(\"Ok0\".into()); }} Err(_) => r.push(\"Err0\".into()) }}", m),
        K::Unlock { m } => format!("drop(g_m{}.take()); {}", m, u),
        K::Read { l } => format!("g_l{0}r = Some(l{0}.read().unwrap()); {1}", l, u),
        K::TryRead { l } => format!("match l{0}.try_read() {{ Ok(g) => {{ g_l{0}r = Some(g); r.push(\"Ok0\".into()); }} Err(_) => r.push(\"Err0\".into()) }}", l),
        K::UnlockR { l } => format!("drop(g_l{}r.take()); {}", l, u),
        K::Write { l } => format!("g_l{0}w = Some(l{0}.write().unwrap()); {1}", l, u),
        K::TryWrite { l } => format!("match l{0}.try_write() {{ Ok(g) => {{ g_l{0}w = Some(g); r.push(\"Ok0\".into()); }} Err(_) => r.push(\"Err0\".into()) }}", l),
        K::UnlockW { l } => format!("drop(g_l{}w.take()); {}", l, u),
        K::GSet { m, v } => format!("**g_m{}.as_mut().unwrap() = {}; {}", m, v, u),
        K::GGet { m } => format!("r.push((**g_m{}.as_ref().unwrap()).to_string());", m),
        K::LSet { l, v } => format!("**g_l{}w.as_mut().unwrap() = {}; {}", l, v, u),
        K::LGet { l } => format!("r.push(match (&g_l{0}r, &g_l{0}w) {{ (Some(g), _) => **g, (_, Some(g)) => **g, _ => unreachable!() }}.to_string());", l),
        // the lock sits in a std Arc shared with the (finished) threads: go through the pointer
        K::MGetMut { m } => format!("r.push(unsafe {{ *(*(SArc::as_ptr(&m{}) as *mut loom::sync::Mutex<u64>)).get_mut().unwrap() }}.to_string());", m),
        K::LGetMut { l } => format!("r.push(unsafe {{ *(*(SArc::as_ptr(&l{}) as *mut loom::sync::RwLock<u64>)).get_mut().unwrap() }}.to_string());", l),
        K::MIntoInner { m } => format!("r.push(SArc::try_unwrap(m{}).ok().expect(\"mutex still shared\").into_inner().unwrap().to_string());", m),
        K::LIntoInner { l } => format!("r.push(SArc::try_unwrap(l{}).ok().expect(\"rwlock still shared\").into_inner().unwrap().to_string());", l),
        K::Wait { cv, m } => format!("g_m{1} = Some(cv{0}.wait(g_m{1}.take().unwrap()).unwrap()); {2}", cv, m, u),
        K::NotifyOne { cv } => format!("cv{}.notify_one(); {}", cv, u),
        K::NotifyAll { cv } => format!("cv{}.notify_all(); {}", cv, u),
        K::NWait { n } => format!("n{}.wait(); {}", n, u),
        K::NNotify { n } => format!("n{}.notify(); {}", n, u),
        K::Park => format!("loom::thread::park(); {}", u),
        K::NWaitUntil { n, a, mo, want } => format!("while a{}.load({}) != {} {{ n{}.wait(); }} {}", a, mo.rust(), want, n, u),
        K::ParkUntil { a, mo, want } => format!("while a{}.load({}) != {} {{ loom::thread::park(); }} {}", a, mo.rust(), want, u),
        K::CvWaitUntil { cv, m, a, mo, want } => format!("while a{0}.load({1}) != {2} {{ g_m{4} = Some(cv{3}.wait(g_m{4}.take().unwrap()).unwrap()); }} {5}", a, mo.rust(), want, cv, m, u),
        K::Unpark { t: tt } if *tt == 0 => format!("main_thread.unpark(); {}", u),
        K::Unpark { t: tt } if t == 0 => format!("h{}.as_ref().unwrap().thread().unpark(); {}", tt, u),
        K::Send { ch, v } => format!("let _ = tx{}.send({}); {}", ch, v, u),
        K::Recv { ch } => format!("{{ let rx = rx{0}.lock().unwrap().take().unwrap(); let x = rx.recv(); *rx{0}.lock().unwrap() = Some(rx); r.push(match x {{ Ok(v) => format!(\"Ok{{}}\", v), Err(_) => \"Err0\".into() }}); }}", ch),
        K::TryRecv { ch } => format!("{{ let rx = rx{0}.lock().unwrap().take().unwrap(); let x = rx.try_recv(); *rx{0}.lock().unwrap() = Some(rx); r.push(match x {{ Ok(v) => format!(\"Ok{{}}\", v), Err(_) => \"Err0\".into() }}); }}", ch),
        K::DropRx { ch } => format!("drop(rx{}.lock().unwrap().take()); {}", ch, u),
        K::ForgetRx { ch } => format!("std::mem::forget(rx{}.lock().unwrap().take()); {}", ch, u),
        K::Spawn { t: tt } => format!("h{0} = Some(loom::thread::spawn(body{0}.take().unwrap())); {1}", tt, u),
        K::Join { t: tt } => format!("h{}.take().unwrap().join().unwrap(); {}", tt, u),
        K::Yield => format!("loom::thread::yield_now(); {}", u),
        K::Mark => u.to_string(),
        K::StopExploring => format!("loom::stop_exploring(); {}", u),
        K::Explore => format!("loom::explore(); {}", u),
        K::SkipBranch => format!("loom::skip_branch(); {}", u),
        K::PanicHere { tag } => format!("panic!(\"injected panic #{}\");", tag),
        other => format!("/* not covered by the generated test: {} */ r.push(\"?\".into());", op_text(&Op { g: None, k: other.clone() })),
    }
}

// short constructors
pub fn ld(a: usize, mo: MO) -> Op {
    K::Load { a, mo }.into()
}
pub fn st(a: usize, v: u64, mo: MO) -> Op {
    K::Store { a, v, mo }.into()
}
pub fn swap(a: usize, v: u64, mo: MO) -> Op {
    K::Swap { a, v, mo }.into()
}
pub fn fadd(a: usize, v: u64, mo: MO) -> Op {
    K::FetchAdd { a, v, mo }.into()
}
pub fn cas(a: usize, exp: u64, new: u64, s: MO, f: MO) -> Op {
    K::Cas { a, exp, new, s, f }.into()
}
pub fn fence(mo: MO) -> Op {
    K::Fence { mo }.into()
}
pub fn rd(c: usize) -> Op {
    K::CellRead { c }.into()
}
pub fn wr(c: usize) -> Op {
    K::CellWrite { c }.into()
}
