#!/bin/bash
# usage: seeded.sh <seed-id> <agent-worktree> <property> [checks to run ...]
# 1. saves patch + demo under /verif/seeded/<seed-id>/
# 2. confirms in a scratch worktree of /repo HEAD: suite passes with the patch, demo fails with it, passes without
# 3. applies the patch to /repo, runs the given quick checks, reverts
set -u
ID=$1; WT=$2; PROP=$3; shift 3
D=/verif/seeded/$ID
mkdir -p $D
git -C $WT diff -- src > $D/patch.diff
cp $WT/tests/seeded_demo.rs $D/seeded_demo.rs 2>/dev/null
cp $WT/SEEDED.md $D/SEEDED.md 2>/dev/null
V=/tmp/wt/verify-$ID
git -C /repo worktree remove --force $V >/dev/null 2>&1
git -C /repo worktree add -q --detach $V HEAD
cp $D/seeded_demo.rs $V/tests/seeded_demo.rs
APPLY=ok
( cd $V && git apply $D/patch.diff ) || APPLY=failed
echo "apply on current HEAD: $APPLY"
SUITE=$(cd $V && cargo test --workspace --no-fail-fast --offline 2>&1 | grep -E '^test result' | awk '{p+=$4; f+=$6} END {print p" passed "f" failed"}')
DEMO_WITH=$(cd $V && cargo test --offline --test seeded_demo 2>&1 | grep -E '^test result' | head -1)
( cd $V && git checkout -q -- src )
DEMO_WITHOUT=$(cd $V && cargo test --offline --test seeded_demo 2>&1 | grep -E '^test result' | head -1)
echo "suite with patch (incl. demo tests): $SUITE"
echo "demo with patch:    $DEMO_WITH"
echo "demo without patch: $DEMO_WITHOUT"
git -C /repo worktree remove --force $V
RESULTS=""
if [ "$APPLY" = ok ]; then
  git -C /repo apply $D/patch.diff
  for c in "$@"; do
    out=$(cd /verif && ./vmc check $c --tier quick 2>&1); code=$?
    nv=$(echo "$out" | grep -c '^VIOLATION')
    echo "check $c: exit=$code violations=$nv"
    echo "$out" | grep '^VIOLATION' | head -3
    RESULTS="$RESULTS $c:exit=$code:violations=$nv"
  done
  git -C /repo checkout -- .
fi
python3 - "$ID" "$PROP" "$APPLY" "$SUITE" "$DEMO_WITH" "$DEMO_WITHOUT" "$RESULTS" <<'PY'
import json, sys
id_, prop, apply_, suite, dw, dwo, results = sys.argv[1:8]
meta = {"seed": id_, "breaks_property": prop, "patch_applies_to_current_head": apply_,
        "existing_suite_with_patch": suite, "demo_with_patch": dw, "demo_without_patch": dwo,
        "checks_run_against_it": results.split(), "needs_to_manifest": "see SEEDED.md (written by the independent sub-agent)"}
json.dump(meta, open(f"/verif/seeded/{id_}/meta.json", "w"), indent=1)
PY
rm -rf /verif/replays
