#!/usr/bin/env python3
"""Writes /verif/MANIFEST.json from the table below (kept in one place so it stays valid)."""
import json, subprocess

HOOK_COMMITS = ["48c2537", "2e3b999", "a02c7c8", "63b8343"]

CHECKS = {
 "C01": dict(level="model_checking", design="DESIGN.md 5 (C01)",
   text="Every program of the A-sc/LOCK/WAIT/CHAN/ARC families up to the stated size is explored exhaustively on a naive SC interleaving machine (all reachable states) and on real loom (all iterations, unbounded); every reference outcome must be produced by some loom iteration and reference deadlocks must be reported.",
   note="Trusted: the SC machine's step semantics (validated against hand-computed sentinels and cross-checked with the RC11 engine on SeqCst-only programs); programs are bounded (2-4 threads, <=6 ops). Known findings D20 and D25 (DESIGN.md 10.2) are listed per (program, outcome) in known_findings/C01.txt.",
   technique="exhaustive program enumeration + explicit-state reference search vs. stateless exploration of the real code"),
 "C02": dict(level="model_checking", design="DESIGN.md 5 (C02), appendix B",
   text="Every litmus program up to the size level with every ordering combination: all RC11-consistent executions (po U rf acyclic) are enumerated by an axiomatic reference and each outcome must be produced by some loom iteration.",
   note="Trusted: RC11 axioms as implemented (validated on every run by a 46-entry litmus table with published verdicts); <=6 stores per location; SeqCst accesses use the RC11 lower bound.",
   technique="exhaustive litmus enumeration + axiomatic RC11 execution enumeration vs. all loom iterations"),
 "C03": dict(level="model_checking", design="DESIGN.md 5 (C03), appendix B",
   text="Every iteration loom executes for every litmus program of the family must return a value tuple that some RC11-consistent execution (SeqCst accesses demoted to acq/rel) returns.",
   note="Trusted: RC11 axioms as implemented (litmus table self-check on every run).",
   technique="exhaustive litmus enumeration; every loom iteration checked against the set of RC11-consistent executions"),
}

CHECKS.update({
 "C05": dict(level="model_checking", design="DESIGN.md 5 (C05), appendix C",
   text="Every program of the LOCK, WAIT and CHAN families up to the stated size: the SC machine searches all reachable states for a deadlock state (no non-spurious step enabled, some thread unfinished); loom must report a deadlock iff one exists, and nothing else.",
   note="Trusted: SC machine step rules for blocking primitives; a spurious return of Notify::wait is not counted as progress (loom explores the execution without it).",
   technique="exhaustive program enumeration + explicit-state deadlock search vs. verdict of the real exploration"),
 "C07": dict(level="model_checking", design="DESIGN.md 5 (C07), 2.4",
   text="Every program of the LOCK family: every iteration's completion history is replayed on the reference lock automaton (exclusion, try exactness, hand-over ordering made visible through a Relaxed data atomic), the outcome sets must be equal and verdicts agree.",
   note="Trusted: lock automaton (no writer preference; recursive read locks excluded); linearizability-style acceptor.",
   technique="exhaustive program enumeration; per-iteration conformance replay on a reference automaton + outcome-set equality"),
 "C08": dict(level="model_checking", design="DESIGN.md 5 (C08), 2.4",
   text="Every program of the WAIT family (condvar with and without flag, Notify, park/unpark, joins, notifications early/late/twice/for a thread blocked elsewhere): every iteration's history replayed on the wait/notify automaton, outcome sets equal, deadlock verdicts agree.",
   note="Trusted: wait automaton of appendix C (FIFO notify_one for outcome equality, any waiter in the acceptor; one spurious credit per sync::Notify).",
   technique="exhaustive program enumeration; per-iteration conformance replay + outcome-set equality"),
 "C09": dict(level="model_checking", design="DESIGN.md 5 (C09), 2.4",
   text="Every program of the CHAN family (1-3 senders, recv/try_recv sequences, receiver drop): every iteration's history replayed on the FIFO automaton, outcome sets equal (so try_recv racing a send shows both results), leak verdicts agree.",
   note="Trusted: unbounded FIFO automaton; Ok/Err of send is not observed (no disconnection semantics).",
   technique="exhaustive program enumeration; per-iteration conformance replay + outcome-set equality"),
})

CHECKS.update({
 "C04": dict(level="model_checking", design="DESIGN.md 5 (C04)",
   text="Two conflicting cell accesses are inserted at every pair of positions into every small synchronisation program (message passing over one atomic with all orderings/fences/RMWs and guards; locks, channels, Notify, condvars, park/unpark); the reference decides whether some consistent execution leaves them unordered by happens-before and loom must panic with a causality violation iff so.",
   note="Trusted: RC11 happens-before (atomics, fences, release sequences) and SC-machine vector clocks built from exactly the edges the property names; with_mut/unsync_load modelled as non-atomic accesses of the atomic's location.",
   technique="exhaustive program enumeration; race existence over all reference executions vs. loom's verdict"),
 "C10": dict(level="model_checking", design="DESIGN.md 5 (C10)",
   text="Programs that create arcs, tracked values, raw allocations and channel messages and release, forget or conditionally release them (on the result of a CAS race), plus the ARC family with forget: loom must end with the matching leak panic iff some terminated reference execution leaks.",
   note="Trusted: SC machine; objects still held by the harness at the end are released by it, so only forgotten / never-freed ones count.",
   technique="exhaustive program enumeration + explicit-state search for leaking terminal states vs. loom's verdict"),
 "C11": dict(level="model_checking", design="DESIGN.md 5 (C11), 2.4",
   text="Every program of the ARC family (clone, drop, count, get_mut, try_unwrap, ptr_eq, raw round trips, increment/decrement_strong_count in 2-4 threads): every iteration's history is replayed on a reference-count automaton (results at linearisation points, payload dropped exactly once by the decrement reaching zero), outcome sets equal, payload-Drop cell never races.",
   note="Trusted: reference-count automaton; payload drops are attributed by a per-arc counter read before/after the call.",
   technique="exhaustive program enumeration; per-iteration conformance replay + outcome-set equality"),
})

CHECKS.update({
 "C12": dict(level="model_checking", design="DESIGN.md 5 (C12)",
   text="Every operation sequence up to depth 2 (quick) / 3 (thorough) over the full op alphabet, boundary operands (0,1,2,MAX,MAX-1,MIN,MIN+1,-1, a mid pattern) and every initial value, for all 12 atomic types, is executed on the loom atomic inside loom::model and on the std atomic side by side; every return value (with its Ok/Err shape) and the final content must be equal, and the model must take exactly one iteration.",
   note="Sequential: one thread. Assumes compare_exchange_weak does not fail spuriously single-threaded on this host; orderings are swept at depth 1 only.",
   technique="exhaustive bounded enumeration of operation sequences with a differential oracle (std::sync::atomic)"),
 "C13": dict(level="model_checking", design="DESIGN.md 5 (C13)",
   text="For each program: two full runs must visit identical (decision path, outcome, history) sequences; for every checkpoint interval and stop point k a run interrupted in iteration k followed by a resumed run must visit exactly the executions of the uninterrupted run from the last stored boundary on; for every distinct outcome a failing variant must fail again first thing after loading its checkpoint.",
   note="Trusted: hook H1 path copy + harness history identify an execution. Quick samples about 30 evenly spaced stop points per interval; thorough uses all.",
   technique="exhaustive enumeration of stop points x checkpoint intervals; sequence equality against the uninterrupted exploration"),
 "C14": dict(level="model_checking", design="DESIGN.md 5 (C14)",
   text="Every iteration's decision path of every program of the A-sc, LIT, LOCK, WAIT and CHAN families is streamed through a depth-first-order oracle: a new path must first differ from its predecessor by an alternative not yet taken under that prefix. This implies pairwise distinct paths, none a prefix of another, and iteration count = number of distinct paths; a run that hits the harness cap is reported as capped, never as holding.",
   note="Trusted: hook H1 is a faithful copy of loom's path.",
   technique="exhaustive program enumeration; streaming trie/DFS-order oracle over all decision paths"),
 "C15": dict(level="model_checking", design="DESIGN.md 5 (C15)",
   text="Every program of the level is explored with preemption_bound 0..6, #ops and unbounded; every iteration's preemptions are recounted from the raw schedule branches (switch away from a thread that is neither disabled nor yielded) and must not exceed the bound; result sets must be subsets of the unbounded one, monotone in n, and equal to it for n >= #ops.",
   note="loom's own counter may exceed the recount (it also counts picking a non-default thread after a block); only the recount is compared with the bound. Known finding D25 (DESIGN.md 10.2): on programs that call yield_now outside a spin loop the unbounded run misses results that bounded runs find; the failing (program, bound, outcome) triples are listed in known_findings/C15.txt.",
   technique="exhaustive program x bound enumeration; per-iteration recount + result-set inclusion oracles"),
 "C16": dict(level="model_checking", design="DESIGN.md 5 (C16)",
   text="K diverse programs: every ordered pair back to back in one process and every unordered pair on two OS threads must reproduce each program's fresh-process iteration sequence; every iteration of every program is replayed alone in a fresh process from the checkpoint stored before it and must equal the same iteration inside the full run; the execution-state fingerprint (hook H2) and the main thread id are identical at the start of every iteration.",
   note="Trusted: a fresh child process as the 'nothing ran before' reference; hook H2 fingerprint fields.",
   technique="exhaustive pair enumeration + per-iteration isolated replay (differential oracle, no hand-written expectation)"),
 "C19": dict(level="model_checking", design="DESIGN.md 5 (C19)",
   text="For every program of the level: every placement i<=j of stop_exploring()/explore() in every thread, every placement of skip_branch(), every placement of explore() under expect_explicit_explore (no alternative may be taken at a decision recorded with exploration disabled; restricted result set is a subset; an empty region restricts nothing), max_branches in {b-1,b,b+1}, max_threads in {k-1,k,k+1}, a max_permutations x checkpoint-interval grid around N, and max_duration in {0, 1h}.",
   note="A region is the time between the two calls (the flag is global to the execution); limits are examined at checkpoint boundaries.",
   technique="exhaustive enumeration of control placements and limit values around the exact need; path oracle through hook H1"),
})

CHECKS.update({
 "C06": dict(level="fault_enumeration", design="DESIGN.md 5 (C06)",
   text="Base programs from the LOCK, WAIT, CHAN, ARC and A-sc families x every crash point: a panic inserted at every (thread, position) - while holding locks, right after spawn with unstarted threads owning loom objects, inside guarded sections - unconditionally and conditionally on each value of the preceding schedule-dependent result (first / middle / last iteration), plus programs loom itself must fail (deadlocks). The model call must unwind with the payload (never abort, never swallow), return normally when the reference cannot reach the crash point, and a sentinel model run afterwards in the same process must equal its fresh-process run.",
   note="Trusted: the SC machine decides reachability of a crash point; a dead worker process is itself a violation (abort).",
   technique="exhaustive enumeration of crash points (fault injection sites) x schedule-dependent firing conditions, all iterations of each"),
 "C17": dict(level="model_checking", design="DESIGN.md 5 (C17)",
   text="Every program of the STAT family (1-3 children + main over 2 thread-local keys and 2 lazy statics, plain and loom-op-in-initialiser/destructor flavours): every iteration's history is replayed on the reference; counters from the harness check one initialisation per (thread,key) / per execution, privacy, destructor once on the owning thread after its last op, AccessError for destroyed keys during destruction, one instance and one drop per lazy static per iteration, and no race on a cell written by the initialiser.",
   note="The running thread inside initialisers/destructors is identified through hook H2. Which thread initialises a lazy static first is compared in the sound direction only.",
   technique="exhaustive program enumeration; per-iteration conformance replay + instrumentation counters"),
 "C18": dict(level="model_checking", design="DESIGN.md 5 (C18)",
   text="Every program of the SPIN family (writers + one waiter with one yield loop on a write-once atomic, every ordering, accesses before/after the loop): if the awaited value is stored in every RC11 execution the run must finish Ok with RC11 <= outcomes <= RC11-minus; if the loop can stay unsatisfied in some execution the run must end with the branch-limit panic (never Ok, never hang).",
   note="Trusted: RC11 enumerator with the loop as one read constrained to the awaited value (failed iterations can be deleted from a consistent execution).",
   technique="exhaustive program enumeration + axiomatic execution enumeration vs. all loom iterations"),
 "C20": dict(level="model_checking", design="DESIGN.md 5 (C20)",
   text="Every poll script x slot/AtomicWaker x every waker-thread script up to the bound: an explicit-state search of the atomic-step specification decides whether the wake-up can be lost; block_on must return the output in every execution when it cannot, report a deadlock when it can, and re-poll only after wakes or the one spurious return.",
   note="Trusted: the atomic-step specification of the waker slot / block_on notification flag.",
   technique="exhaustive script enumeration + explicit-state reference search vs. verdict of the real exploration"),
})

NOT_YET = {}

def main():
    props = [json.loads(l) for l in open('/verif/properties.jsonl')]
    checks = []
    na = []
    for p in props:
        pid = p['id']
        if pid in CHECKS:
            c = CHECKS[pid]
            checks.append({
                "property_id": pid,
                "quick_cmd": f"./vmc check {pid} --tier quick",
                "thorough_cmd": f"./vmc check {pid} --tier thorough",
                "evidence_file": f"/verif/evidence/{pid}.json",
                "replay_cmd_template": "./vmc replay {path}",
                "engine": "vmc",
                "level_claimed": {"category": c['level'], "text": c['text'], "design_ref": c['design']},
                "level_note": c['note'],
                "technique": c['technique'],
            })
        else:
            na.append({"property_id": pid, "reason": NOT_YET.get(pid, "check not built yet in this revision (model-checking design in DESIGN.md section 5); not claimed until its oracle is implemented")})
    m = {
        "version": 1,
        "setup_cmd": "mkdir -p /verif/.build && cd /verif/mc && CARGO_NET_OFFLINE=true cargo build --release --offline",
        "hooks": {
            "guard": "loom_verif",
            "enable": "RUSTFLAGS --cfg loom_verif (set in /verif/mc/.cargo/config.toml; loom is a path dependency on /repo, rebuilt from its working tree by every check)",
            "baseline_off_cmd": "cd /repo && cargo test --workspace --no-fail-fast --offline",
            "source_commits": HOOK_COMMITS,
            "add_only": True,
        },
        "engines": [
            {"name": "vmc", "path": "/verif/mc", "serves_properties": sorted(CHECKS.keys()),
             "kind_free_text": "Rust: program IR + generators, SC explicit-state machine, RC11 axiomatic enumerator, history acceptor, interpreter on the real loom API, worker pool"},
        ],
        "checks": checks,
        "not_applicable": na,
        "notes": "Known findings (genuine defects recorded, not repaired) are listed in /verif/known_findings/*.txt; repaired defects are 'fixed:' lines in /verif/known_findings.txt.",
    }
    json.dump(m, open('/verif/MANIFEST.json', 'w'), indent=1)
    print("checks:", len(checks), "not_applicable:", len(na))

main()
