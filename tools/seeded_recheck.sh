#!/bin/bash
# usage: seeded_recheck.sh <seed-id> <checks...> : apply the stored patch to /repo, run the quick checks, revert, record
ID=$1; shift
D=/verif/seeded/$ID
RES=""
git -C /repo apply $D/patch.diff || { echo "patch does not apply"; exit 1; }
for c in "$@"; do
  out=$(cd /verif && ./vmc check $c --tier quick 2>&1); code=$?
  nv=$(echo "$out" | grep -c '^VIOLATION')
  echo "$ID check $c: exit=$code violations=$nv"
  RES="$RES $c:exit=$code:violations=$nv"
done
git -C /repo checkout -- .
python3 - "$ID" "$RES" <<'PY'
import json, sys
id_, res = sys.argv[1:3]
f = f"/verif/seeded/{id_}/meta.json"
m = json.load(open(f))
m["checks_run_after_strengthening"] = res.split()
m["detected"] = any(":exit=1:" in r for r in res.split())
json.dump(m, open(f, "w"), indent=1)
PY
rm -rf /verif/replays
