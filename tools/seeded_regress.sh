#!/bin/bash
# Re-run every stored seed against the check of the property it was written against (quick tier).
# Prints one line per seed; exit 1 if some seed is no longer detected.
cd /verif
bad=0
for d in seeded/*/; do
  id=$(basename $d)
  prop=$(python3 -c "import json;print(json.load(open('$d/meta.json'))['breaks_property'])")
  if [ "$(python3 -c "import json;print(json.load(open('$d/meta.json')).get('outside_statement', False))")" = "True" ]; then
    echo "$id $prop skipped (the change does not violate the property as stated, see meta.json)"
    continue
  fi
  git -C /repo apply /verif/$d/patch.diff || { echo "$id: patch does not apply"; bad=1; continue; }
  out=$(./vmc check $prop --tier quick 2>&1); code=$?
  git -C /repo checkout -- .
  nv=$(echo "$out" | grep -c '^VIOLATION')
  echo "$id $prop exit=$code violations=$nv"
  [ $code -eq 1 ] || bad=1
done
rm -rf /verif/replays
exit $bad
