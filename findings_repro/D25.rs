use loom::sync::atomic::{AtomicUsize, Ordering::SeqCst};
use loom::sync::Arc;
use std::collections::BTreeSet;
use std::sync::Mutex;

fn run(bound: Option<usize>) -> BTreeSet<(usize, usize, usize, usize)> {
    let seen: &'static Mutex<BTreeSet<(usize, usize, usize, usize)>> = Box::leak(Box::new(Mutex::new(BTreeSet::new())));
    let mut b = loom::model::Builder::new();
    b.preemption_bound = bound;
    b.check(move || {
        let a = Arc::new(AtomicUsize::new(0));
        let a1 = a.clone();
        let a2 = a.clone();
        let t1 = loom::thread::spawn(move || {
            let s = a1.swap(1, SeqCst);
            let l = a1.load(SeqCst);
            (s, l)
        });
        let t2 = loom::thread::spawn(move || {
            loom::thread::yield_now();
            let s = a2.swap(2, SeqCst);
            let l = a2.load(SeqCst);
            (s, l)
        });
        let r1 = t1.join().unwrap();
        let r2 = t2.join().unwrap();
        seen.lock().unwrap().insert((r1.0, r1.1, r2.0, r2.1));
    });
    let s = seen.lock().unwrap().clone();
    s
}

#[test]
fn bounded_is_subset_of_unbounded() {
    let full = run(None);
    for n in 0..6 {
        let s = run(Some(n));
        println!("bound {} -> {:?}", n, s);
        for o in &s {
            assert!(full.contains(o), "bound {} finds {:?}, the unbounded run does not: {:?}", n, o, full);
        }
    }
}
